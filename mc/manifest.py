"""Regenerates /verif/MANIFEST.json from the table below:  python -m mc.manifest"""
import json
import os

VERIF = os.path.dirname(os.path.dirname(os.path.abspath(__file__)))
PY = '/venv/bin/python'

TECHNIQUE = ("bounded-exhaustive explicit-state exploration of the real implementation "
             "(every case of a stated finite space) against a reference model")

import glob
import importlib


def load_checks() -> dict:
    out = {}
    for path in sorted(glob.glob(os.path.join(VERIF, 'mc', 'checks', 'c[0-9][0-9].py'))):
        name = os.path.basename(path)[:-3]
        module = importlib.import_module(f'mc.checks.{name}')
        text = module.LEVEL_TEXT
        extras = []
        if hasattr(module, 'sequences'):
            extras.append("every operation sequence `first [middle] query` over 36 operations on one dataset object against a "
                          "never-used rebuild (quick: middle is an in-place edit; thorough: any operation)")
        extras.append("representative cases (thorough: all) again with debug logging, numpy errstate ignore and python -O")
        text = text + '; also ' + '; '.join(extras) + ' (DESIGN.md section 12.2)'
        out[module.PROPERTY] = (f'3/{module.PROPERTY}', text, module.LEVEL_NOTE)
    return out


PENDING_REASON = "check not built yet in this session (planned in DESIGN.md section 11)"


def main() -> None:
    CHECKS = load_checks()
    properties = []
    with open(os.path.join(VERIF, 'properties.jsonl')) as f:
        for line in f:
            if line.strip():
                properties.append(json.loads(line)['id'])
    known_na = {}
    try:
        from mc.not_applicable import NOT_APPLICABLE
        known_na = NOT_APPLICABLE
    except ImportError:
        pass
    checks = []
    not_applicable = []
    for pid in properties:
        if pid in CHECKS:
            section, text, note = CHECKS[pid]
            checks.append({
                'property_id': pid,
                'quick_cmd': f'{PY} -m mc.run {pid} --tier quick',
                'thorough_cmd': f'{PY} -m mc.run {pid} --tier thorough',
                'evidence_file': f'/verif/evidence/{pid}.json',
                'replay_cmd_template': f'{PY} -m mc.run {pid} --replay {{path}}',
                'engine': 'mc',
                'level_claimed': {
                    'category': 'model_checking',
                    'text': text,
                    'design_ref': f'DESIGN.md section {section}',
                },
                'level_note': note,
                'technique': TECHNIQUE,
            })
        else:
            not_applicable.append({'property_id': pid, 'reason': known_na.get(pid, PENDING_REASON)})
    manifest = {
        'version': 1,
        'setup_cmd': f'{PY} -m mc.selftest',
        'hooks': {
            'guard': 'EMSARRAY_VERIF',
            'enable': 'no hooks are needed: checks import /repo/src directly (PYTHONPATH set by mc/env.py)',
            'baseline_off_cmd': 'cd /repo && /venv/bin/python -m pytest -ra -q -p no:cacheprovider --timeout=900 --continue-on-collection-errors',
            'source_commits': [],
            'add_only': True,
        },
        'engines': [{
            'name': 'mc',
            'path': '/verif/mc',
            'serves_properties': [c['property_id'] for c in checks],
            'kind_free_text': 'hand-written explicit-state / bounded-exhaustive explorer over the real Python implementation, 16 worker processes',
        }],
        'checks': checks,
        'not_applicable': not_applicable,
        'notes': 'All checks run with cwd=/verif; they import emsarray from /repo/src (current working tree). '
                 'Known findings: /verif/known_findings.json.  Replays: /verif/replays/<id>/.',
    }
    with open(os.path.join(VERIF, 'MANIFEST.json'), 'w') as f:
        json.dump(manifest, f, indent=1)
        f.write('\n')
    print(f"MANIFEST.json: {len(checks)} checks, {len(not_applicable)} not_applicable")


if __name__ == '__main__':
    main()
