"""Regenerates /verif/MANIFEST.json from the table below:  python -m mc.manifest"""
import json
import os

VERIF = os.path.dirname(os.path.dirname(os.path.abspath(__file__)))
PY = '/venv/bin/python'

TECHNIQUE = ("bounded-exhaustive explicit-state exploration of the real implementation "
             "(every case of a stated finite space) against a reference model")

# id -> (design section, what the level means for this property, trusted base note)
CHECKS = {
    'C01': ('3/C01', "every grid kind x every linear index with margin x every native index with margin, on "
                     "every grid shape up to 4x4 (5x1) of every convention and every mesh of the library, "
                     "compared with row-major arithmetic; out-of-range must raise",
            "numpy, the builders in mc/builders.py; shapes above the bound are not explored"),
    'C02': ('3/C02', "every cell of every grid kind of every dataset in the family list (all conventions, holes, skew, "
                     ">10 cells): flattened value == value selected through the native index == builder label; "
                     "polygon / centre / spatial-index position n belong to the cell at native index n",
            "shapely/GEOS as geometry kernel; dyadic coordinates; CF2D derived bounds next to holes not judged"),
    'C03': ('3/C03', "every permutation of 0..3 extra dimensions with the grid dimensions of every grid kind, every "
                     "wind mode (default/axis/name) and linear-dimension naming case, both round-trip directions, "
                     "against numpy.moveaxis+reshape",
            "numpy/xarray transposition semantics; names colliding with a remaining dimension may be refused"),
    'C05': ('3/C05', "every index list of length <=3 over 4 cells (repeats, all orders) on every grid kind, every "
                     "point list of length <=4 over {hit, tie, second, miss} under every missing-point policy, "
                     "for select_index(es), select_points and extract_dataframe, compared with builder labels",
            "pandas/xarray merge semantics; all-miss with drop may be refused"),
}

PENDING_REASON = "check not built yet in this session (planned in DESIGN.md section 11)"


def main() -> None:
    properties = []
    with open(os.path.join(VERIF, 'properties.jsonl')) as f:
        for line in f:
            if line.strip():
                properties.append(json.loads(line)['id'])
    known_na = {}
    try:
        from mc.not_applicable import NOT_APPLICABLE
        known_na = NOT_APPLICABLE
    except ImportError:
        pass
    checks = []
    not_applicable = []
    for pid in properties:
        if pid in CHECKS:
            section, text, note = CHECKS[pid]
            checks.append({
                'property_id': pid,
                'quick_cmd': f'{PY} -m mc.run {pid} --tier quick',
                'thorough_cmd': f'{PY} -m mc.run {pid} --tier thorough',
                'evidence_file': f'/verif/evidence/{pid}.json',
                'replay_cmd_template': f'{PY} -m mc.run {pid} --replay {{path}}',
                'engine': 'mc',
                'level_claimed': {
                    'category': 'model_checking',
                    'text': text,
                    'design_ref': f'DESIGN.md section {section}',
                },
                'level_note': note,
                'technique': TECHNIQUE,
            })
        else:
            not_applicable.append({'property_id': pid, 'reason': known_na.get(pid, PENDING_REASON)})
    manifest = {
        'version': 1,
        'setup_cmd': f'{PY} -m mc.selftest',
        'hooks': {
            'guard': 'EMSARRAY_VERIF',
            'enable': 'no hooks are needed: checks import /repo/src directly (PYTHONPATH set by mc/env.py)',
            'baseline_off_cmd': 'cd /repo && /venv/bin/python -m pytest -ra -q -p no:cacheprovider --timeout=900 --continue-on-collection-errors',
            'source_commits': [],
            'add_only': True,
        },
        'engines': [{
            'name': 'mc',
            'path': '/verif/mc',
            'serves_properties': [c['property_id'] for c in checks],
            'kind_free_text': 'hand-written explicit-state / bounded-exhaustive explorer over the real Python implementation, 16 worker processes',
        }],
        'checks': checks,
        'not_applicable': not_applicable,
        'notes': 'All checks run with cwd=/verif; they import emsarray from /repo/src (current working tree). '
                 'Known findings: /verif/known_findings.json.  Replays: /verif/replays/<id>/.',
    }
    with open(os.path.join(VERIF, 'MANIFEST.json'), 'w') as f:
        json.dump(manifest, f, indent=1)
        f.write('\n')
    print(f"MANIFEST.json: {len(checks)} checks, {len(not_applicable)} not_applicable")


if __name__ == '__main__':
    main()
