"""
Runner: exhaustive enumeration of a check's case space over worker processes, evidence file,
replay files, known-findings matching.

A check module provides

    PROPERTY : str                       e.g. 'C01'
    TITLE    : str
    RULE     : str                       how cases are enumerated / what counts as non-trivial
    ASSUMPTIONS : list[str]
    def cases(tier) -> list[dict]        the complete, ordered (simplest first) case list
    def run_case(case) -> dict           Recorder.result()
    def bounds(tier) -> dict             the stated bounds of the space (for the evidence file)

Every case is executed (no sampling, no cap).  ``VERIF_SEED`` only rotates which worker gets
which case and is passed to the builders as a label offset; it never selects cases.
"""
from __future__ import annotations

import json
import multiprocessing
import os
import re
import sys
import time
import traceback
from typing import Any

from . import env

WORKERS = int(os.environ.get('VERIF_WORKERS', '16'))
#: evidence and replay files go here; only mutant trials (tools/seed_eval.py) point this away from /verif
OUT_DIR = os.environ.get('VERIF_OUT', env.VERIF)
MAX_REPLAY_FILES = 10


class LibraryRaised(Exception):
    """The code under test raised; carries the original exception."""

    def __init__(self, exc: BaseException):
        super().__init__(f"{type(exc).__name__}: {exc}")
        self.exc = exc


def lib(fn, *args, **kwargs):
    """Call into the code under test; library exceptions are wrapped so that a check can tell
    them apart from bugs in the harness itself."""
    try:
        return fn(*args, **kwargs)
    except Exception as exc:  # noqa: BLE001
        raise LibraryRaised(exc) from exc


def short(value: Any, limit: int = 400) -> Any:
    """JSON-friendly, bounded rendering of an observation."""
    try:
        import numpy
        if isinstance(value, numpy.ndarray):
            value = value.tolist()
        elif isinstance(value, numpy.generic):
            value = value.item()
    except Exception:  # noqa: BLE001
        pass
    try:
        text = json.dumps(value, default=repr)
    except Exception:  # noqa: BLE001
        text = repr(value)
    if len(text) > limit:
        return text[:limit] + '...'
    try:
        return json.loads(text)
    except Exception:  # noqa: BLE001
        return text


class Recorder:
    """Collects what one case did: transitions, non-trivial sub-cases, outcome, violations."""

    def __init__(self) -> None:
        self.transitions = 0
        self._nontrivial: set = set()
        self._outcomes: list = []
        self.violations: list[dict] = []
        self.states = 1

    def step(self, n: int = 1) -> None:
        self.transitions += n

    def nontrivial(self, key: Any = True) -> None:
        self._nontrivial.add(key)

    def outcome(self, value: Any) -> None:
        self._outcomes.append(value)

    def fail(self, fingerprint: str, what: str, expected: Any = None, observed: Any = None) -> None:
        if len(self.violations) < 25:
            self.violations.append({
                'fingerprint': fingerprint,
                'what': what,
                'expected': short(expected),
                'observed': short(observed),
            })
        else:
            self.violations.append({'fingerprint': fingerprint, 'what': what})

    def check(self, condition: bool, fingerprint: str, what: str,
              expected: Any = None, observed: Any = None) -> bool:
        self.step()
        if not condition:
            self.fail(fingerprint, what, expected, observed)
        return bool(condition)

    def result(self) -> dict:
        return {
            'transitions': self.transitions,
            'nontrivial': len(self._nontrivial),
            'outcome': short(self._outcomes, 200) if self._outcomes else None,
            'violations': self.violations,
            'states': self.states,
        }


_CHECK = None


_EXECUTED: list = []     # case indexes this process has executed, in order


#: process environments every property must be indifferent to (see DESIGN 12.2)
ENVIRONMENTS = ('debug-logging', 'numpy-quiet', 'optimized')


class _EvaluatingHandler:
    """A logging handler that formats every record, the way a real handler would."""
    level = 0

    def handle(self, record):
        record.getMessage()
        return True


def _in_environment(name, fn):
    """Run fn() with the process configured the way some applications configure it."""
    if name == 'debug-logging':
        # an application (or `emsarray -vvv`) that turned on debug logging for everything
        import logging
        logger = logging.getLogger('emsarray')
        root = logging.getLogger()
        handler = logging.Handler()
        handler.emit = lambda record: record.getMessage()
        saved = (logger.level, root.level, logger.propagate)
        logger.setLevel(logging.DEBUG)
        root.setLevel(logging.DEBUG)
        logger.addHandler(handler)
        try:
            return fn()
        finally:
            logger.removeHandler(handler)
            logger.setLevel(saved[0])
            root.setLevel(saved[1])
    if name == 'numpy-quiet':
        # numerical code that runs under numpy.seterr(all='ignore')
        import numpy
        with numpy.errstate(all='ignore'):
            return fn()
    if name in (None, 'optimized'):
        # 'optimized' is python -O: the interpreter was started that way (mc.child)
        return fn()
    raise ValueError(name)


def _worker(item):
    index, case = item
    try:
        environment = case.get('environment') if isinstance(case, dict) else None
        if environment == 'optimized' and __debug__:
            raise RuntimeError("an 'optimized' case must run in a python -O interpreter (mc.child)")
        began = time.time()
        result = _in_environment(environment, lambda: _CHECK.run_case(case))
        result['seconds'] = round(time.time() - began, 2)
        if environment:
            for violation in result['violations']:
                violation['fingerprint'] += f"/in-environment/{environment}"
                violation['what'] += f" [process environment: {environment}]"
        result['index'] = index
        # what this process ran before: a failure that needs shared state left behind by earlier cases
        # is replayed together with them
        result['preceding'] = list(_EXECUTED)
        _EXECUTED.append(index)
        return result
    except BaseException as exc:  # noqa: BLE001
        # An exception that comes out of the code under test (some frame of the traceback is in the
        # repository's sources) at a place where the check did not expect one is a violation: on the
        # unchanged tree the explored space raises none.  Anything else is a bug in the harness.
        library_frames = [frame for frame in traceback.extract_tb(exc.__traceback__)
                          if os.path.realpath(frame.filename).startswith(os.path.realpath(env.SRC) + os.sep)]
        if library_frames and not isinstance(exc, (KeyboardInterrupt, SystemExit, MemoryError)):
            where = library_frames[-1]
            return {
                'index': index, 'transitions': 1, 'nontrivial': 0, 'outcome': 'exception', 'states': 1,
                'preceding': list(_EXECUTED),
                'violations': [{
                    'fingerprint': f"{_CHECK.PROPERTY}/unexpected-exception/{type(exc).__name__}/{where.name}",
                    'what': f"the code under test raised {type(exc).__name__}: {exc} "
                            f"(in {os.path.basename(where.filename)}:{where.lineno} {where.name}) where the property requires an answer",
                    'expected': 'no exception', 'observed': traceback.format_exc()[-1500:],
                }],
            }
        return {
            'index': index,
            'harness_error': f"{type(exc).__name__}: {exc}",
            'traceback': traceback.format_exc(),
        }


def _isolated(sequence):
    """Run a sequence of cases in a forked child of this (pristine) process; return the last result."""
    import pickle
    read_fd, write_fd = os.pipe()
    pid = os.fork()
    if pid == 0:
        try:
            os.close(read_fd)
            result = None
            for item in sequence:
                result = _worker(item)
            with os.fdopen(write_fd, 'wb') as f:
                pickle.dump(result, f)
        finally:
            os._exit(0)
    os.close(write_fd)
    with os.fdopen(read_fd, 'rb') as f:
        data = f.read()
    os.waitpid(pid, 0)
    if not data:
        return {'harness_error': 'isolated replay died', 'traceback': ''}
    return pickle.loads(data)


def _isolated_any(sequence, check, tier):
    """_isolated, or a fresh python -O interpreter if the last case needs one."""
    last = sequence[-1][1]
    if not (isinstance(last, dict) and last.get('environment') == 'optimized'):
        return _isolated(sequence)
    import subprocess
    child_env = dict(os.environ, PYTHONPATH=env.VERIF, VERIF_WORKERS='1')
    proc = subprocess.run([sys.executable, '-O', '-m', 'mc.child', check.PROPERTY, tier], input=json.dumps(list(sequence), default=repr),
                          capture_output=True, text=True, env=child_env, cwd=env.VERIF)
    if proc.returncode != 0:
        return {'harness_error': 'python -O child failed', 'traceback': proc.stderr[-3000:]}
    return json.loads(proc.stdout.strip().splitlines()[-1])[-1]


def coarse_environment_key(case, outcome):
    """For checks whose cases are expensive: one case per part, family, grid kind and kind of history."""
    spec = case.get('spec') if isinstance(case.get('spec'), dict) else case
    history = spec.get('history') or []
    return json.dumps([case.get('part'), spec.get('family'), case.get('kind'), case.get('regime'), case.get('policy'),
                       bool(spec.get('explicit_names')), history[:1], case.get('first') if case.get('part') == 'sequence' else None,
                       case.get('format'), case.get('path_form')], default=repr)


def _worker_chunk(items):
    return [_worker(item) for item in items]


def _execute(order, results, property_id) -> int:
    """Run the (index, case) items on the worker pool; fills `results`.  Returns 0 or 2."""
    total = len(order)
    if not total:
        return 0
    workers = max(1, min(WORKERS, total))
    chunksize = max(1, min(64, total // (workers * 8) or 1))
    if workers == 1 or os.environ.get('VERIF_SERIAL'):
        for item in order:
            r = _worker(item)
            results[r['index']] = r
        return 0
    import concurrent.futures as futures
    chunks = [order[k:k + chunksize] for k in range(0, len(order), chunksize)]
    ctx = multiprocessing.get_context('fork')
    with futures.ProcessPoolExecutor(workers, mp_context=ctx) as pool:
        pending = {pool.submit(_worker_chunk, chunk): chunk for chunk in chunks}
        try:
            for future in futures.as_completed(pending):
                for r in future.result():
                    results[r['index']] = r
        except futures.process.BrokenProcessPool:
            lost = [i for i, r in enumerate(results) if r is None]
            print(f"HARNESS-ERROR property={property_id}: a worker process died; "
                  f"{len(lost)} case(s) without result, first: {lost[:5]}")
            return 2
    return 0


def _start_optimized(items, check, tier):
    """Start `python -O` interpreters (asserts stripped), one per chunk of items; returns the running children."""
    if not items:
        return []
    import subprocess
    import tempfile
    workers = max(1, min(WORKERS, len(items)))
    chunks = [items[k::workers] for k in range(workers)]
    child_env = dict(os.environ, PYTHONPATH=env.VERIF, VERIF_WORKERS='1')
    children = []
    for chunk in chunks:
        payload = tempfile.TemporaryFile('w+')
        json.dump(chunk, payload, default=repr)
        payload.seek(0)
        out = tempfile.TemporaryFile('w+')
        err = tempfile.TemporaryFile('w+')
        proc = subprocess.Popen([sys.executable, '-O', '-m', 'mc.child', check.PROPERTY, tier], stdin=payload, stdout=out, stderr=err,
                                env=child_env, cwd=env.VERIF)
        children.append((chunk, proc, out, err))
    return children


def _collect_optimized(children, results) -> int:
    for chunk, proc, out, err in children:
        proc.wait()
        out.seek(0)
        err.seek(0)
        text = out.read()
        if proc.returncode != 0 or not text.strip():
            results[chunk[0][0]] = {'index': chunk[0][0], 'harness_error': 'python -O child failed', 'traceback': err.read()[-3000:]}
            continue
        for r in json.loads(text.strip().splitlines()[-1]):
            results[r['index']] = r
    return 0


def load_known_findings() -> list[dict]:
    path = os.path.join(env.VERIF, 'known_findings.json')
    try:
        with open(path) as f:
            data = json.load(f)
    except FileNotFoundError:
        return []
    return list(data.get('findings', []))


def finding_for(findings: list[dict], property_id: str, fingerprint: str) -> dict | None:
    # the same input failing the same way with the process configured differently is the same finding
    fingerprint = re.sub(r'/in-environment/[a-z-]+$', '', fingerprint)
    for finding in findings:
        if finding.get('property') != property_id:
            continue
        if finding.get('fingerprint') == fingerprint:
            return finding
        pattern = finding.get('fingerprint_re')
        if pattern and re.fullmatch(pattern, fingerprint):
            return finding
    return None


def run(check, tier: str, seed: int, replay: str | None = None) -> int:
    global _CHECK
    _CHECK = check
    property_id = check.PROPERTY
    start = time.time()

    if replay is not None:
        return run_replay(check, replay)

    env.import_emsarray()
    if hasattr(check, 'prepare'):
        check.prepare(tier)
    cases = list(check.cases(tier))
    total = len(cases)
    for case in cases:
        case.setdefault('seed', seed)
    items = list(enumerate(cases))
    # rotate the assignment of cases to workers; all cases still run
    rotation = seed % max(1, min(total, WORKERS))
    order = items[rotation:] + items[:rotation]

    results: list[dict | None] = [None] * total
    status = _execute(order, results, property_id)
    if status:
        return status

    # second phase: the same cases with the process configured differently.  Quick: the first case of every
    # distinct outcome of the first phase (every behaviour the first phase saw); thorough: every case.
    if not any(r is None or 'harness_error' in r for r in results):
        environments = getattr(check, 'ENVIRONMENTS', ENVIRONMENTS)
        if 'VERIF_ENVIRONMENTS' in os.environ:      # debugging aid: e.g. VERIF_ENVIRONMENTS= (none) or =optimized
            environments = tuple(e for e in os.environ['VERIF_ENVIRONMENTS'].split(',') if e)
        def default_key(case, outcome):
            # one case per distinct outcome and per kind of case (which options it uses, not their sizes)
            spec = case.get('spec') if isinstance(case.get('spec'), dict) else case
            flags = sorted(k for k, v in spec.items() if v not in (None, False, 0) and k not in ('seed',))
            return json.dumps([outcome, case.get('part'), spec.get('family'), flags, spec.get('history')], default=repr)
        key_of = getattr(check, 'environment_key', default_key)
        representatives = []
        seen_keys = set()
        for index, case in enumerate(list(cases)):
            if case.get('environment') or case.get('child'):
                continue
            if getattr(check, 'environment_skip', lambda case: False)(case):
                continue    # e.g. size canaries: one large instance, not a kind of behaviour
            if tier != 'thorough':
                key = key_of(case, results[index]['outcome'])
            elif getattr(check, 'ENVIRONMENTS_ON_REPRESENTATIVES_ONLY', False):
                key = default_key(case, results[index]['outcome'])
            else:
                key = index
            if key not in seen_keys:
                seen_keys.add(key)
                representatives.append(case)
        extra = []
        for environment in environments:
            for case in representatives:
                extra.append((len(cases), dict(case, environment=environment)))
                cases.append(extra[-1][1])
        results.extend([None] * len(extra))
        total = len(cases)
        in_process = [item for item in extra if item[1]['environment'] != 'optimized']
        optimized = [item for item in extra if item[1]['environment'] == 'optimized']
        children = _start_optimized(optimized, check, tier)     # run alongside the worker pool
        status = _execute(in_process, results, property_id)
        _collect_optimized(children, results)
        if status:
            return status

    executed = sum(1 for r in results if r is not None)
    harness_errors = [r for r in results if r is not None and 'harness_error' in r]
    if harness_errors or executed != total:
        for r in harness_errors[:5]:
            print(f"HARNESS-ERROR property={property_id} case={r['index']} {r['harness_error']}")
            print(r['traceback'])
            print("case:", json.dumps(cases[r['index']], default=repr)[:2000])
        print(f"harness errors: {len(harness_errors)}; executed {executed} of {total}")
        return 2

    if os.environ.get('VERIF_TIMING'):
        for r in sorted(results, key=lambda r: -r.get('seconds', 0))[:8]:
            print(f"  {r.get('seconds')}s case {r['index']}: {json.dumps(cases[r['index']], default=repr)[:260]}")
    findings = load_known_findings()
    transitions = sum(r['transitions'] for r in results)
    states = sum(r.get('states', 1) for r in results)
    nontrivial = sum(r['nontrivial'] for r in results)
    outcomes = {json.dumps(r['outcome'], default=repr) for r in results}

    new_violations = []
    known_hits: dict[str, int] = {}
    for r in results:
        for violation in r['violations']:
            finding = finding_for(findings, property_id, violation['fingerprint'])
            if finding is not None:
                key = finding.get('fingerprint') or finding.get('fingerprint_re')
                known_hits[key] = known_hits.get(key, 0) + 1
            else:
                new_violations.append((r['index'], violation))

    for finding in findings:
        if finding.get('property') != property_id:
            continue
        key = finding.get('fingerprint') or finding.get('fingerprint_re')
        if key in known_hits:
            print(f"KNOWN-FINDING: property={property_id} {finding['what']} "
                  f"[{known_hits[key]} case(s) this run]")

    replay_paths = []
    if new_violations:
        replay_dir = os.path.join(OUT_DIR, 'replays', property_id)
        os.makedirs(replay_dir, exist_ok=True)
        seen_fp: dict[str, int] = {}
        for index, violation in new_violations:
            fp = violation['fingerprint']
            seen_fp[fp] = seen_fp.get(fp, 0) + 1
            if seen_fp[fp] > 2 or len(replay_paths) >= MAX_REPLAY_FILES:
                continue
            # determinism guard: the same case must fail the same way when run again
            again = _isolated_any([(index, cases[index])], check, tier)
            # (the same *kinds* of failure: how many sub-cases of one kind fail may legitimately vary where the case
            # itself runs children with a random hash seed)
            again_fps = sorted({v['fingerprint'] for v in again.get('violations', [])})
            first_fps = sorted({v['fingerprint'] for v in results[index]['violations']})
            preceding = []
            if 'harness_error' in again or again_fps != first_fps:
                # The harness owns every source of nondeterminism (no threads, clocks or randomness), so a
                # case that fails after other cases but not alone points at state shared between objects
                # in the code under test.  Replay it after the cases its worker ran before it.
                preceding = results[index].get('preceding', [])
                sequel = _isolated_any([(k, cases[k]) for k in preceding] + [(index, cases[index])], check, tier)
                sequel_fps = sorted({v['fingerprint'] for v in sequel.get('violations', [])})
                if 'harness_error' in sequel or sequel_fps != first_fps:
                    print(f"HARNESS-NONDETERMINISM property={property_id} case={index}: {first_fps} in its worker, "
                          f"{again_fps or again.get('harness_error')} alone, {sequel_fps or sequel.get('harness_error')} after its predecessors")
                    return 2
                violation = dict(violation)
                violation['what'] += f" [history dependent: holds when the case runs alone, fails after cases {preceding}]"
            path = os.path.join(replay_dir, f"{tier}-{len(replay_paths)}.json")
            with open(path, 'w') as f:
                json.dump({
                    'property': property_id, 'tier': tier, 'case_index': index,
                    'case': cases[index], 'violation': violation,
                    'preceding_cases': [cases[k] for k in preceding],
                }, f, indent=1, default=repr)
            replay_paths.append(path)
            print(f"VIOLATION property={property_id} replay={path}")
            print(f"  {violation['fingerprint']}: {violation['what']}")
            if 'expected' in violation:
                print(f"  expected: {violation['expected']}")
                print(f"  observed: {violation['observed']}")
        print(f"{len(new_violations)} violation(s) in "
              f"{len({i for i, _ in new_violations})} case(s); "
              f"{len(seen_fp)} distinct fingerprint(s): "
              + ', '.join(f"{k} x{v}" for k, v in sorted(seen_fp.items())[:20]))

    wall = time.time() - start
    sample_indexes = sorted({0, total // 3, (2 * total) // 3, total - 1})
    samples = [short(cases[i], 900) for i in sample_indexes]
    evidence = {
        'property_id': property_id,
        'tier': tier,
        'seed': seed,
        'level': 'model_checking',
        'coverage': {
            'states': states,
            'transitions': transitions,
            'traces_validated_against_impl': total,
            # every compared operation is one input tried; a case (= one trace) bundles many of them, and the
            # non-trivial count below is over (case, sub-case) pairs, so it is compared with this number, not with cases
            'evaluations': max(total, transitions),
            'distinct_nontrivial': nontrivial,
            'rule': check.RULE,
            'samples': samples,
            'exhaustive': executed == total,
            'enumerated_cases': total,
            'executed_cases': executed,
            'distinct_outcomes': len(outcomes),
            'bounds': check.bounds(tier),
            'known_finding_hits': known_hits,
            'explanation': (
                "Explicit-state, bounded-exhaustive exploration of the real implementation: every "
                "configuration/history of the stated finite space was built as real xarray objects, "
                "every public-API operation applied to it was compared with an independent "
                "reference model.  states = configurations (plus canonical states of history "
                "searches), transitions = API operations compared with the model, traces = cases, "
                "all of them executed on the implementation itself.  evaluations = transitions (each compared "
                "operation is one input tried); distinct_nontrivial counts distinct (case, sub-case) pairs that "
                "the rule calls non-trivial.  Cases carrying an 'environment' key are the second phase: "
                "representatives of the first phase run again with the process configured differently."),
        },
        'assumptions': list(check.ASSUMPTIONS),
        'wall_s': round(wall, 3),
        'violations': len(new_violations),
    }
    os.makedirs(os.path.join(OUT_DIR, 'evidence'), exist_ok=True)
    evidence_path = os.path.join(OUT_DIR, 'evidence', f'{property_id}.json')
    with open(evidence_path, 'w') as f:
        json.dump(evidence, f, indent=1, default=repr)
        f.write('\n')

    print(f"{property_id} {tier}: cases={total} states={states} transitions={transitions} "
          f"nontrivial={nontrivial} outcomes={len(outcomes)} "
          f"known={sum(known_hits.values())} violations={len(new_violations)} wall={wall:.1f}s")
    if nontrivial < 2 and not new_violations:
        print(f"HARNESS-ERROR property={property_id}: vacuous exploration (nontrivial={nontrivial})")
        return 2
    return 1 if new_violations else 0


def run_replay(check, path: str) -> int:
    env.import_emsarray()
    with open(path) as f:
        data = json.load(f)
    case = data['case']
    if isinstance(case, dict) and case.get('environment') == 'optimized' and __debug__:
        # this case needs an interpreter started with -O
        import subprocess
        return subprocess.run([sys.executable, '-O', '-m', 'mc.run', check.PROPERTY, '--replay', path], cwd=env.VERIF).returncode
    if hasattr(check, 'prepare'):
        check.prepare(data.get('tier', 'quick'))
    for earlier in data.get('preceding_cases', []):
        _worker((-1, earlier))
    result = _worker((data.get('case_index', 0), case))
    if 'harness_error' in result:
        print(result['traceback'])
        return 2
    findings = load_known_findings()
    print("case:", json.dumps(case, default=repr))
    bad = 0
    for violation in result['violations']:
        finding = finding_for(findings, check.PROPERTY, violation['fingerprint'])
        tag = 'KNOWN-FINDING' if finding else 'VIOLATION'
        if not finding:
            bad += 1
        print(f"{tag} property={check.PROPERTY} replay={path}")
        print(f"  {violation['fingerprint']}: {violation['what']}")
        print(f"  expected: {violation.get('expected')}")
        print(f"  observed: {violation.get('observed')}")
    if not result['violations']:
        print(f"replay of {path}: property holds on this case (transitions={result['transitions']})")
    return 1 if bad else 0
