"""
python -O -m mc.child <PROPERTY> <tier>   (cases as a JSON list of [index, case] on stdin)

Runs cases of a check in this interpreter -- started by the runner with -O, so that `assert`
statements and `if __debug__:` blocks in the code under test are compiled away -- and prints the
list of results as one JSON line.
"""
import importlib
import json
import sys

from . import env, runner


def main() -> int:
    property_id, tier = sys.argv[1], sys.argv[2]
    check = importlib.import_module(f"mc.checks.{property_id.lower()}")
    runner._CHECK = check
    env.import_emsarray()
    if hasattr(check, 'prepare'):
        check.prepare(tier)
    items = json.loads(sys.stdin.read())
    results = [runner._worker((index, case)) for index, case in items]
    sys.stdout.write('\n' + json.dumps(results, default=repr) + '\n')
    return 0


if __name__ == '__main__':
    sys.exit(main())
