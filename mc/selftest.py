"""
setup_cmd: nothing needs building (pure Python, imports /repo/src directly).  This self-test proves
the plumbing on a fresh restore: the repository imports from the working tree, every family builds and
is detected as the intended convention, and the runner's exit-code / known-finding logic works.
"""
import sys


def main() -> int:
    from . import env
    emsarray = env.import_emsarray()
    from . import builders, runner

    for spec in builders.family_specs('quick'):
        ds, truth = builders.build(spec)
        from emsarray.conventions import get_dataset_convention
        cls = get_dataset_convention(ds)
        if cls is None or cls.__name__ != truth.convention:
            print(f"selftest: {spec} detected as {cls}, expected {truth.convention}")
            return 1

    findings = [{'property': 'CXX', 'fingerprint': 'a/b', 'what': 'x'},
                {'property': 'CXX', 'fingerprint_re': 'c/.*', 'what': 'y'}]
    assert runner.finding_for(findings, 'CXX', 'a/b')
    assert runner.finding_for(findings, 'CXX', 'c/d')
    assert runner.finding_for(findings, 'CXX', 'a/c') is None
    assert runner.finding_for(findings, 'CYY', 'a/b') is None

    rec = runner.Recorder()
    rec.check(True, 'x', 'ok')
    rec.check(False, 'y', 'bad', 1, 2)
    result = rec.result()
    assert result['transitions'] == 2 and len(result['violations']) == 1

    print(f"selftest ok: emsarray {emsarray.__version__} from {emsarray.__file__}")
    return 0


if __name__ == '__main__':
    sys.exit(main())
