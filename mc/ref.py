"""
Reference models: plain loops written from the property statements.  shapely is used only as a
geometry kernel (constructors and predicates), never through emsarray code paths.
"""
from __future__ import annotations

import numpy as np
import shapely
from shapely.geometry import Point, Polygon

from . import builders


def ref_polygons(truth) -> list:
    """Reference polygon of every face cell: shapely Polygon, None (no geometry) or 'undefined'."""
    out = []
    for coords in truth['polygons']:
        if coords is None:
            out.append(None)
        elif isinstance(coords, str):
            out.append('undefined')
        else:
            out.append(Polygon(coords))
    return out


def ring_of(polygon) -> list:
    return [tuple(float(v) for v in c) for c in polygon.exterior.coords]


def polygon_matches(lib_polygon, ref_coords, mode: str) -> bool:
    """mode 'sequence': the exterior ring is exactly the listed vertices, closed;
    mode 'equals': the same point set and the same vertex set (start vertex / direction free)."""
    if lib_polygon is None or ref_coords is None:
        return lib_polygon is None and ref_coords is None
    if not isinstance(lib_polygon, Polygon):
        return False
    ring = ring_of(lib_polygon)
    ref_ring = [tuple(float(v) for v in c) for c in ref_coords]
    if mode == 'sequence':
        return ring == ref_ring + [ref_ring[0]]
    if mode == 'close':
        # coordinates that are not binary fractions: which of two neighbouring doubles an edge lands on is the
        # implementation's business (that neighbouring cells agree on it is checked separately)
        return len(ring) == len(ref_ring) + 1 and len(lib_polygon.interiors) == 0 and \
            np.allclose(np.array(sorted(set(ring))), np.array(sorted(set(ref_ring))), rtol=0, atol=1e-12)
    if len(lib_polygon.interiors) != 0:
        return False
    return set(ring) == set(ref_ring) and len(ring) == len(ref_ring) + 1 and lib_polygon.equals(Polygon(ref_ring))


def expected_values(vt: dict, ncell: int, shift: int) -> np.ndarray:
    """Labels of a variable in reference flattened form: extras (in the variable's own order) then
    the cell axis."""
    return builders.label_values(vt['base'], vt['extra_shape'], ncell, shift).astype(vt['dtype'])


def ref_ravel(data_array, grid_dims) -> tuple:
    """numpy-only flattening: grid dimensions moved to the end in convention order, then reshaped.
    Returns (values, remaining dims)."""
    dims = list(data_array.dims)
    values = np.asarray(data_array.values)
    source = [dims.index(d) for d in grid_dims]
    n = len(grid_dims)
    values = np.moveaxis(values, source, list(range(values.ndim - n, values.ndim)))
    rest = tuple(d for d in dims if d not in grid_dims)
    grid_shape = values.shape[values.ndim - n:]
    return values.reshape(values.shape[:values.ndim - n] + (int(np.prod(grid_shape)),)), rest


def same_values(a, b) -> bool:
    """Exact equality, NaN equal to NaN, shapes equal."""
    a, b = np.asarray(a), np.asarray(b)
    if a.shape != b.shape:
        return False
    if a.dtype.kind in 'fc' or b.dtype.kind in 'fc':
        return bool(np.array_equal(a, b, equal_nan=True))
    return bool(np.array_equal(a, b))


def brute_hits(polygons: list, geometry) -> list[int]:
    return [n for n, p in enumerate(polygons)
            if p is not None and not isinstance(p, str) and p.intersects(geometry)]


def kind_name(kind) -> str:
    return getattr(kind, 'value', kind)


def row_major_unravel(n: int, shape: tuple) -> tuple:
    out = []
    for size in reversed(shape):
        n, r = divmod(n, size)
        out.append(r)
    return tuple(reversed(out))


def row_major_ravel(index: tuple, shape: tuple) -> int:
    n = 0
    for i, size in zip(index, shape):
        n = n * size + i
    return n


def chebyshev_dilate(mask: np.ndarray, radius: int) -> np.ndarray:
    """Cells within `radius` steps in any of the eight directions of a marked cell (no wrap)."""
    out = np.zeros_like(mask, dtype=bool)
    rows, cols = mask.shape
    for j in range(rows):
        for i in range(cols):
            hit = False
            for dj in range(-radius, radius + 1):
                for di in range(-radius, radius + 1):
                    jj, ii = j + dj, i + di
                    if 0 <= jj < rows and 0 <= ii < cols and mask[jj, ii]:
                        hit = True
            out[j, i] = hit
    return out


def node_ring_closure(faces: list, selected: set, rounds: int) -> set:
    """`rounds` times: add every face sharing a node with a selected face."""
    selected = set(selected)
    for _ in range(rounds):
        nodes = set()
        for f in selected:
            nodes.update(faces[f])
        selected = {f for f, fn in enumerate(faces) if f in selected or nodes.intersection(fn)}
    return selected


def point_of(x, y) -> Point:
    return Point(float(x), float(y))


def is_valid_polygon(coords) -> bool:
    return bool(shapely.is_valid(Polygon(coords)))
