"""
Environment set-up shared by every check.

* puts the repository's *current working tree* first on sys.path
  (``VERIF_REPO`` overrides ``/repo``; used only for mutant demonstrations on scratch copies);
* stands in for the optional ``cfunits`` import of ``emsarray.transect``
  (its C library, udunits2, is not installed in this sandbox);
* selects a non-interactive matplotlib backend;
* provides per-case scratch directories (under /dev/shm when available).
"""
import contextlib
import os
import shutil
import sys
import tempfile
import types
import warnings

REPO = os.environ.get('VERIF_REPO', '/repo')
SRC = os.path.join(REPO, 'src')
VERIF = os.path.dirname(os.path.dirname(os.path.abspath(__file__)))

#: name of the (unused) hook guard; recorded in MANIFEST.hooks
GUARD = 'EMSARRAY_VERIF'

os.environ.setdefault('MPLBACKEND', 'Agg')
os.environ.setdefault('PYTHONDONTWRITEBYTECODE', '1')
sys.dont_write_bytecode = True

if SRC not in sys.path[:1]:
    sys.path.insert(0, SRC)


def _stub_cfunits() -> None:
    if 'cfunits' in sys.modules:
        return
    try:
        import cfunits  # noqa: F401
        return
    except Exception:
        pass
    module = types.ModuleType('cfunits')

    class Units:  # the two methods emsarray.transect uses
        def __init__(self, units=None, *args, **kwargs):
            self.units = units

        def formatted(self, *args, **kwargs):
            return str(self.units)

    module.Units = Units
    module.__verif_stub__ = True
    sys.modules['cfunits'] = module


_stub_cfunits()

# Dependency deprecation warnings are irrelevant to the properties.  emsarray's own warnings are
# *observed* explicitly by the checks that care (C06), inside warnings.catch_warnings blocks.
warnings.simplefilter('ignore')


def import_emsarray():
    # emsarray opens its work files with open_mfdataset(lock=False); with dask's threaded scheduler
    # that lets several threads into a non-thread-safe HDF5 at once (observed: segfaults in libhdf5
    # under load).  The harness owns this nondeterminism by computing lazily loaded data on one thread.
    import dask
    dask.config.set(scheduler='synchronous')
    import emsarray
    path = os.path.realpath(emsarray.__file__)
    if not path.startswith(os.path.realpath(SRC) + os.sep):
        raise RuntimeError(f"emsarray imported from {path}, expected under {SRC}")
    return emsarray


def scratch_root() -> str:
    for root in ('/dev/shm', tempfile.gettempdir()):
        if os.path.isdir(root) and os.access(root, os.W_OK):
            return root
    return tempfile.gettempdir()


@contextlib.contextmanager
def scratch_dir(prefix: str = 'emsverif-'):
    path = tempfile.mkdtemp(prefix=prefix, dir=scratch_root())
    try:
        yield path
    finally:
        shutil.rmtree(path, ignore_errors=True)
