"""
Tiny in-memory datasets for every convention family, built from JSON-serialisable specs.

``build(spec)`` returns ``(dataset, truth)``.  ``truth`` is the harness's own description of what it
built -- grid kinds with their dimensions and shapes, the reference polygon of every cell *from that
cell's own coordinates*, stored centres, and the label formula of every variable -- written without
importing emsarray.  Coordinates are dyadic rationals so geometric predicates are exact.

Labels: value(var, extras e, cell n) = base(var) + 100 * ravel(e) + n + shift, exact in float32.
"""
from __future__ import annotations

import itertools
from typing import Any

import numpy as np
import xarray as xr

NT = 2
NK = 3

TIME_UNITS = 'days since 1990-01-01 00:00:00 +10'


# ------------------------------------------------------------------------------------------------
# common pieces


def time_variable(name: str, dim: str, nt: int = NT, units: str = TIME_UNITS) -> xr.DataArray:
    values = (np.datetime64('2021-11-11T00:00:00', 'ns')
              + np.arange(nt) * np.timedelta64(6, 'h')).astype('datetime64[ns]')
    da = xr.DataArray(values, dims=[dim], name=name, attrs={
        'long_name': 'Time', 'standard_name': 'time', 'coordinate_type': 'time'})
    da.encoding['units'] = units
    da.encoding['dtype'] = np.dtype('float64')
    return da


def depth_variable(name: str, dim: str, nk: int = NK, positive: str | None = 'down',
                   deep_to_shallow: bool = False) -> xr.DataArray:
    # physical depth of layer index p (0 = shallowest): p + 0.5 metres
    physical = np.arange(nk) + 0.5
    if deep_to_shallow:
        physical = physical[::-1]
    values = physical if positive in ('down', None) else -physical
    attrs = {'long_name': 'Depth', 'standard_name': 'depth', 'coordinate_type': 'Z'}
    if positive is not None:
        attrs['positive'] = positive
    return xr.DataArray(values.astype('float64'), dims=[dim], name=name, attrs=attrs)


def label_values(base: int, extra_shape: tuple, ncell: int, shift: int = 0) -> np.ndarray:
    extra_n = int(np.prod(extra_shape)) if extra_shape else 1
    stride = 100 if ncell <= 100 else 1000
    values = base + shift + stride * np.arange(extra_n)[:, None] + np.arange(ncell)[None, :]
    return values.reshape(tuple(extra_shape) + (ncell,))


def make_variable(name: str, base: int, dims: tuple, sizes: dict, grid_dims: tuple,
                  dtype: str = 'float64', shift: int = 0, attrs: dict | None = None) -> xr.DataArray:
    """A variable whose value at (extras, cell) is its label; ``dims`` may be in any order."""
    extras = tuple(d for d in dims if d not in grid_dims)
    grid = tuple(d for d in grid_dims if d in dims)
    assert grid == tuple(grid_dims), "variable must carry all dimensions of its grid"
    extra_shape = tuple(sizes[d] for d in extras)
    grid_shape = tuple(sizes[d] for d in grid_dims)
    ncell = int(np.prod(grid_shape))
    values = label_values(base, extra_shape, ncell, shift).reshape(extra_shape + grid_shape)
    canonical = xr.DataArray(values.astype(dtype), dims=extras + tuple(grid_dims))
    out = canonical.transpose(*dims)
    out = xr.DataArray(np.ascontiguousarray(out.values), dims=dims, name=name, attrs=dict(attrs or {}))
    return out


class Truth(dict):
    """Plain dictionary with attribute access."""
    __getattr__ = dict.__getitem__

    def __setattr__(self, key, value):
        self[key] = value


def var_truth(name, kind, base, dims, sizes, grid_dims, dtype='float64') -> dict:
    extras = tuple(d for d in dims if d not in grid_dims)
    return {
        'name': name, 'kind': kind, 'base': base, 'dims': tuple(dims),
        'extras': extras, 'extra_shape': tuple(sizes[d] for d in extras), 'dtype': dtype,
    }


def standard_variables(kinds: dict, time_dim: str, depth_dim: str, sizes: dict, default_kind: str,
                       shift: int = 0, ints: bool = False) -> tuple[dict, dict]:
    """The usual inventory of data variables: several on the default grid (dims in several orders),
    one on every other grid, one on no grid.  Returns (data_vars, truths)."""
    data_vars: dict[str, xr.DataArray] = {}
    truths: dict[str, dict] = {}

    def add(name, kind, base, dims, dtype='float64', attrs=None):
        grid_dims = tuple(kinds[kind]['dims']) if kind is not None else ()
        data_vars[name] = make_variable(name, base, tuple(dims), sizes, grid_dims, dtype, shift, attrs)
        truths[name] = var_truth(name, kind, base, tuple(dims), sizes, grid_dims, dtype)

    g = tuple(kinds[default_kind]['dims'])
    add('temp', default_kind, 10000, (time_dim, depth_dim) + g, attrs={'units': 'degrees C', 'long_name': 'Temperature'})
    add('eta', default_kind, 20000, (time_dim,) + g, 'float32', attrs={'units': 'metre', 'long_name': 'Surface elevation'})
    add('botz', default_kind, 30000, g, attrs={'units': 'metre', 'long_name': 'Bathymetry'})
    # grid dimensions neither last nor adjacent
    add('perm', default_kind, 40000, (g[0], depth_dim) + g[1:] + (time_dim,), attrs={'long_name': 'Permuted'})
    base = 50000
    for kind in kinds:
        if kind == default_kind:
            continue
        kg = tuple(kinds[kind]['dims'])
        add(f'u_{kind}', kind, base, (time_dim, depth_dim) + kg, attrs={'long_name': f'on {kind}'})
        base += 5000
        add(f'v_{kind}', kind, base, kg[::-1] + (time_dim,), 'float32', attrs={'long_name': f'reversed on {kind}'})
        base += 5000
    if ints:
        add('flag', default_kind, 80000, (time_dim,) + g, 'int32', attrs={'long_name': 'int without fill'})
        add('flag_fv', default_kind, 82000, g + (time_dim,), 'int32',
            attrs={'long_name': 'int with _FillValue', '_FillValue': np.int32(-9999)})
        add('flag_mv', default_kind, 84000, (time_dim,) + g, 'int32',
            attrs={'long_name': 'int with missing_value', 'missing_value': np.int32(-8888)})
        add('flag_zero', default_kind, 86000, g, 'int32',
            attrs={'long_name': 'int whose fill marker is zero', '_FillValue': np.int32(0)})
        if int(np.prod([sizes[d] for d in g])) <= 200:
            # an unsigned byte without any fill marker, holding zeros (a land/sea or quality flag)
            add('flag_u8', default_kind, 0, g, 'uint8', attrs={'long_name': 'unsigned byte flag without fill value'})
    data_vars['tser'] = xr.DataArray(
        900.0 + shift + np.arange(sizes[time_dim]), dims=[time_dim], name='tser',
        attrs={'long_name': 'time series on no grid'})
    truths['tser'] = {'name': 'tser', 'kind': None, 'base': 900, 'dims': (time_dim,),
                      'extras': (time_dim,), 'extra_shape': (sizes[time_dim],), 'dtype': 'float64'}
    return data_vars, truths


# ------------------------------------------------------------------------------------------------
# CF grid with one-dimensional coordinates

GAPS = [0.5, 1.0, 0.25, 0.75, 0.5]


def axis_values(n: int, kind: str, origin: float) -> np.ndarray:
    if kind == 'asc':
        values = origin + 0.5 * np.arange(n)
    elif kind == 'nonuni':
        values = origin + np.concatenate([[0.0], np.cumsum(GAPS[:max(0, n - 1)])])[:n]
    elif kind == 'desc':
        values = (origin + 0.5 * np.arange(n))[::-1].copy()
    elif kind == 'descnonuni':
        values = (origin + np.concatenate([[0.0], np.cumsum(GAPS[:max(0, n - 1)])])[:n])[::-1].copy()
    elif kind in ('nearuni', 'nearuni-tiny'):
        # uniform up to a perturbation of the last value that passes the usual closeness tests: 2^-20 is within
        # numpy's default relative tolerance (1e-5 of the spacing 0.5), 2^-30 within its absolute one (1e-8)
        values = origin + 0.5 * np.arange(n)
        if n > 2:
            values[-1] += 2.0 ** -20 if kind == 'nearuni' else 2.0 ** -30
    elif kind == 'tenths':
        # decimal fractions that are not binary fractions, on an axis that crosses zero off-centre (-0.05 | 0.25 | ...):
        # sums and halves of neighbouring values round
        values = np.array([origin - int(origin) - 0.05 + 0.3 * k for k in range(n)]) + int(origin)
    elif kind == 'int8':
        # whole degrees in the narrowest integer type, at values whose sums do not fit the type
        return (60 + 10 * np.arange(n)).astype('int8') if n <= 6 else (int(origin) + np.arange(n)).astype('int16')
    elif kind in ('int', 'intdesc'):
        # whole-degree coordinates stored as integers (midpoints fall on x.5)
        values = (int(origin) + np.arange(n)).astype('int32')
        return values[::-1].copy() if kind == 'intdesc' else values
    elif kind == 'float32':
        return (origin + 0.5 * np.arange(n)).astype('float32')
    else:
        raise ValueError(kind)
    return values.astype('float64')


def midpoint_bounds(values: np.ndarray) -> np.ndarray | None:
    """Reference for derived 1-D bounds: cell edges at midpoints, outer edges extrapolated by half
    the end gap.  Undefined for a single value."""
    n = len(values)
    if n < 2:
        return None
    values = np.asarray(values, dtype='float64')
    edges = np.empty(n + 1)
    for k in range(1, n):
        edges[k] = (values[k - 1] + values[k]) / 2
    edges[0] = values[0] - (values[1] - values[0]) / 2
    edges[n] = values[n - 1] + (values[n - 1] - values[n - 2]) / 2
    return np.stack([edges[:-1], edges[1:]], axis=-1)


def stored_bounds(values: np.ndarray, mode: str) -> np.ndarray:
    """Stored bounds that deliberately differ from the midpoints.
    'contig': contiguous, edge between k and k+1 at the quarter point;
    'gapped': each cell spans an eighth either side of its centre (gaps between cells)."""
    n = len(values)
    values = np.asarray(values, dtype='float64')
    out = np.empty((n, 2))
    if mode in ('gapped', 'overlap', 'hairline'):
        # 'overlap': cells wider than the spacing, neighbouring cells overlap in a strip
        # 'hairline': gaps of 2^-21 between cells, far below a relative tolerance at longitudes beyond 100
        half = {'gapped': 0.125, 'overlap': 0.3125, 'hairline': 0.25 - 2.0 ** -22}[mode]
        direction = 1.0 if n < 2 or values[1] > values[0] else -1.0
        out[:, 0] = values - direction * half
        out[:, 1] = values + direction * half
        return out
    if n == 1:
        out[0] = [values[0] - 0.25, values[0] + 0.25]
        return out
    edges = np.empty(n + 1)
    for k in range(1, n):
        edges[k] = values[k - 1] + 0.25 * (values[k] - values[k - 1])
    edges[0] = values[0] - 0.25 * (values[1] - values[0])
    edges[n] = values[n - 1] + 0.25 * (values[n - 1] - values[n - 2])
    out[:, 0] = edges[:-1]
    out[:, 1] = edges[1:]
    return out


def box_coords(x0, y0, x1, y1) -> list:
    xa, xb = min(x0, x1), max(x0, x1)
    ya, yb = min(y0, y1), max(y0, y1)
    return [(xa, ya), (xb, ya), (xb, yb), (xa, yb)]


def build_cf1d(spec: dict) -> tuple[xr.Dataset, Truth]:
    ny, nx = spec['ny'], spec['nx']
    lat_kind = spec.get('lat_kind', 'asc')
    lon_kind = spec.get('lon_kind', 'asc')
    bounds = spec.get('bounds', 'none')          # none | var | coord | gapped
    names = spec.get('names', 'dim')             # dim: lat(lat); other: latitude(y)
    coords_as = spec.get('coords_as', 'coord')   # coord | var   (var only with names == other)
    shift = spec.get('seed', 0) % 5
    nt, nk = spec.get('nt', NT), spec.get('nk', NK)

    if names == 'dim':
        lat_name, lon_name, y_dim, x_dim = 'lat', 'lon', 'lat', 'lon'
    else:
        lat_name, lon_name, y_dim, x_dim = 'latitude', 'longitude', 'y', 'x'

    lat_values = axis_values(ny, lat_kind, spec.get('lat0', -2.0))
    lon_values = axis_values(nx, lon_kind, spec.get('lon0', 10.0))
    if 'dx' in spec:
        # wide cells: grids that go round the globe, or coordinates in projected units
        lon_values = spec.get('lon0', 10.0) + axis_values(nx, lon_kind, 0.0) * (spec['dx'] / 0.5)
    if 'dy' in spec:
        lat_values = spec.get('lat0', -2.0) + axis_values(ny, lat_kind, 0.0) * (spec['dy'] / 0.5)
    lat = xr.DataArray(lat_values, dims=[y_dim], name=lat_name, attrs={
        'standard_name': 'latitude', 'units': 'degrees_north', 'long_name': 'Latitude'})
    lon = xr.DataArray(lon_values, dims=[x_dim], name=lon_name, attrs={
        'standard_name': 'longitude', 'units': 'degrees_east', 'long_name': 'Longitude'})

    sizes = {y_dim: ny, x_dim: nx, 'time': nt, 'depth': nk}
    kinds = {'face': {'dims': (y_dim, x_dim), 'shape': (ny, nx)}}
    data_vars, truths = standard_variables(kinds, 'time', 'depth', sizes, 'face', shift,
                                           ints=spec.get('ints', False))

    extra_vars: dict[str, Any] = {}
    # 'bounds' applies to both coordinates unless one of them is given its own mode
    lat_mode = spec.get('bounds_lat', bounds)
    lon_mode = spec.get('bounds_lon', bounds)

    def bounds_for(values, mode, coordinate, name, dim):
        if mode in ('var', 'coord', 'gapped', 'overlap', 'hairline'):
            b = stored_bounds(values, mode if mode in ('gapped', 'overlap', 'hairline') else 'contig')
            if spec.get('bounds_rows') == 'sorted':
                # every row (low, high), also on an axis that runs high to low (reanalysis style files)
                b = np.sort(b, axis=1)
            if spec.get('signed_zero'):
                # neighbouring cells write their common edge at zero with opposite signs
                b = b.copy()
                b[:, 1][b[:, 1] == 0] = -0.0
                b[:, 0][b[:, 0] == 0] = 0.0
            coordinate.attrs['bounds'] = name
            extra_vars[name] = xr.DataArray(b, dims=[dim, 'bnds'])
            return b
        return midpoint_bounds(values)

    if spec.get('valid_range'):
        # product-style files describe the range of the cell centres on the coordinate itself
        for coordinate, values in ((lat, lat_values), (lon, lon_values)):
            coordinate.attrs['valid_min'] = float(np.min(values))
            coordinate.attrs['valid_max'] = float(np.max(values))
            coordinate.attrs['actual_range'] = np.array([np.min(values), np.max(values)], dtype='float64')
    lat_b = bounds_for(lat_values, lat_mode, lat, 'lat_bnds', y_dim)
    lon_b = bounds_for(lon_values, lon_mode, lon, 'lon_bnds', x_dim)

    ds = xr.Dataset(
        data_vars={lat_name: lat, lon_name: lon, **extra_vars,
                   'time': time_variable('time', 'time', nt),
                   'depth': depth_variable('depth', 'depth', nk), **data_vars},
        attrs={'title': 'verif cf1d', 'Conventions': 'CF-1.4'})
    coord_names = ['time', 'depth']
    if coords_as == 'coord':
        coord_names += [lat_name, lon_name]
    if lat_mode == 'coord':
        coord_names += ['lat_bnds']
    if lon_mode == 'coord':
        coord_names += ['lon_bnds']
    ds = ds.set_coords([c for c in coord_names if c in ds.variables])

    polygons: list = []
    centres: list = []
    for j in range(ny):
        for i in range(nx):
            if lat_b is None or lon_b is None:
                polygons.append('undefined')
            else:
                polygons.append(box_coords(lon_b[i, 0], lat_b[j, 0], lon_b[i, 1], lat_b[j, 1]))
            centres.append((float(lon_values[i]), float(lat_values[j])))

    truth = Truth(
        hole_points=[], bowtie=None,
        family='cf1d', convention='CFGrid1D', kinds=kinds, default_kind='face', vars=truths,
        polygons=polygons, polygon_compare='close' if 'tenths' in (lat_kind, lon_kind) else 'equals', centres=centres, centre_mode='stored',
        shift=shift, time_dim='time', depth_dim='depth', time_name='time', depth_names=['depth'],
        geometry_names=[lon_name, lat_name] + [n for n in ('lon_bnds', 'lat_bnds') if n in extra_vars],
        sizes=sizes, defined=(lat_b is not None and lon_b is not None),
        lat_name=lat_name, lon_name=lon_name, explicit=('lat_bnds' in extra_vars and 'lon_bnds' in extra_vars),
    )
    return ds, truth


# ------------------------------------------------------------------------------------------------
# CF grid with two-dimensional coordinates, SHOC simple

HOLE_SETS = {
    'none': lambda ny, nx: set(),
    'interior': lambda ny, nx: {(1, 1)} if ny > 2 and nx > 2 else {(ny // 2, nx // 2)} if ny * nx > 1 else set(),
    'corner': lambda ny, nx: {(0, 0)} if ny * nx > 1 else set(),
    'row': lambda ny, nx: {(min(1, ny - 1), i) for i in range(nx)} if ny > 1 else set(),
    'lshape': lambda ny, nx: ({(0, 0), (1, 0), (0, 1)} & {(j, i) for j in range(ny) for i in range(nx)})
    if ny * nx > 3 else set(),
    'first': lambda ny, nx: {(0, i) for i in range(min(2, nx))} if ny > 1 else set(),
    # a cell with missing neighbours on both sides along one axis (a river one cell wide)
    'channel': lambda ny, nx: {(1, 0), (1, 2)} if ny >= 2 and nx >= 3 else set(),
    # everything is missing except a small block in the far corner (many cells, few vertices)
    'mostlyland': lambda ny, nx: {(j, i) for j in range(ny) for i in range(nx) if not (j >= ny - 2 and i >= nx - 3)}
    if ny * nx > 6 else set(),
}


def node_lattice(nj: int, ni: int, geometry: str, lon0: float = 10.0, lat0: float = -2.0) -> tuple[np.ndarray, np.ndarray]:
    """Node coordinates of an (nj+1, ni+1) lattice: X[j, i], Y[j, i]."""
    jj, ii = np.meshgrid(np.arange(nj + 1), np.arange(ni + 1), indexing='ij')
    if geometry == 'rect':
        x = lon0 + 0.5 * ii
        y = lat0 + 0.5 * jj
    elif geometry == 'skew':
        x = lon0 + 0.5 * ii + 0.25 * jj
        y = lat0 + 0.5 * jj + 0.125 * ii
    elif geometry == 'rot':
        # rows run north-to-south: a grid whose j axis points down
        x = lon0 + 0.5 * ii
        y = lat0 + 4.0 - 0.5 * jj
    else:
        raise ValueError(geometry)
    return x.astype('float64'), y.astype('float64')


def cell_corners(x: np.ndarray, y: np.ndarray, j: int, i: int) -> list:
    return [(float(x[j, i]), float(y[j, i])), (float(x[j, i + 1]), float(y[j, i + 1])),
            (float(x[j + 1, i + 1]), float(y[j + 1, i + 1])), (float(x[j + 1, i]), float(y[j + 1, i]))]


def derived_corner_reference(cx: np.ndarray, cy: np.ndarray, holes: set) -> tuple[list, np.ndarray]:
    """Reference for CF2D polygons *derived* from centres: a corner is the mean of the surrounding
    centres that exist; a cell has a polygon iff its four corners exist.  Returns (polygons, judged)
    where judged[j, i] is False for cells whose answer the property does not pin down (cells within
    Chebyshev distance 2 of a missing centre: the implementation additionally discards 'river'
    cells there, which the property does not describe)."""
    ny, nx = cx.shape
    corner_x = np.full((ny + 1, nx + 1), np.nan)
    corner_y = np.full((ny + 1, nx + 1), np.nan)
    for J in range(ny + 1):
        for I in range(nx + 1):
            xs, ys = [], []
            for dj, di in ((-1, -1), (-1, 0), (0, -1), (0, 0)):
                j, i = J + dj, I + di
                if 0 <= j < ny and 0 <= i < nx and (j, i) not in holes:
                    xs.append(cx[j, i])
                    ys.append(cy[j, i])
            if xs:
                corner_x[J, I] = sum(xs) / len(xs)
                corner_y[J, I] = sum(ys) / len(ys)
    polygons = []
    judged = np.ones((ny, nx), dtype=bool)
    for j in range(ny):
        for i in range(nx):
            for (hj, hi) in holes:
                if max(abs(hj - j), abs(hi - i)) <= 2:
                    judged[j, i] = False
            corners = cell_corners(corner_x, corner_y, j, i)
            if any(np.isnan(c[0]) or np.isnan(c[1]) for c in corners):
                polygons.append(None)
            else:
                polygons.append(corners)
    return polygons, judged


def build_cf2d(spec: dict) -> tuple[xr.Dataset, Truth]:
    ny, nx = spec['ny'], spec['nx']
    geometry = spec.get('geometry', 'rect')
    bounds = spec.get('bounds', 'stored')       # stored | derived
    holes_name = spec.get('holes', 'none')
    coords_as = spec.get('coords_as', 'coord')
    shoc = spec['family'] == 'shoc_simple'
    shift = spec.get('seed', 0) % 5
    nt, nk = spec.get('nt', NT), spec.get('nk', NK)
    holes = HOLE_SETS[holes_name](ny, nx)

    if shoc:
        y_dim, x_dim, time_dim, depth_dim = 'j', 'i', 'time', 'k'
        lat_name, lon_name, depth_name = 'latitude', 'longitude', 'zc'
    else:
        y_dim, x_dim, time_dim, depth_dim = 'y', 'x', 'time', 'depth'
        lat_name, lon_name, depth_name = 'lat', 'lon', 'depth'

    x, y = node_lattice(ny, nx, geometry, spec.get('lon0', 10.0), spec.get('lat0', -2.0))
    cx = (x[:-1, :-1] + x[:-1, 1:] + x[1:, 1:] + x[1:, :-1]) / 4
    cy = (y[:-1, :-1] + y[:-1, 1:] + y[1:, 1:] + y[1:, :-1]) / 4
    cx_h, cy_h = cx.copy(), cy.copy()
    for (j, i) in holes:
        cx_h[j, i] = np.nan
        cy_h[j, i] = np.nan

    lat = xr.DataArray(cy_h, dims=[y_dim, x_dim], name=lat_name, attrs={
        'standard_name': 'latitude', 'units': 'degrees_north', 'long_name': 'Latitude'})
    lon = xr.DataArray(cx_h, dims=[y_dim, x_dim], name=lon_name, attrs={
        'standard_name': 'longitude', 'units': 'degrees_east', 'long_name': 'Longitude'})

    sizes = {y_dim: ny, x_dim: nx, time_dim: nt, depth_dim: nk}
    kinds = {'face': {'dims': (y_dim, x_dim), 'shape': (ny, nx)}}
    data_vars, truths = standard_variables(kinds, time_dim, depth_dim, sizes, 'face', shift,
                                           ints=spec.get('ints', False))
    extra_vars: dict[str, Any] = {}
    polygons: list = []
    judged = np.ones((ny, nx), dtype=bool)
    if bounds == 'stored':
        lon_b = np.full((ny, nx, 4), np.nan)
        lat_b = np.full((ny, nx, 4), np.nan)
        for j in range(ny):
            for i in range(nx):
                if (j, i) in holes:
                    polygons.append(None)
                    continue
                corners = cell_corners(x, y, j, i)
                polygons.append(corners)
                lon_b[j, i] = [c[0] for c in corners]
                lat_b[j, i] = [c[1] for c in corners]
        lat.attrs['bounds'] = 'lat_bnds'
        lon.attrs['bounds'] = 'lon_bnds'
        extra_vars['lat_bnds'] = xr.DataArray(lat_b, dims=[y_dim, x_dim, 'nv'])
        extra_vars['lon_bnds'] = xr.DataArray(lon_b, dims=[y_dim, x_dim, 'nv'])
    else:
        polygons, judged = derived_corner_reference(cx, cy, holes)

    attrs = {'title': 'verif cf2d', 'Conventions': 'CF-1.4'}
    if shoc:
        attrs = {'title': 'verif shoc simple', 'ems_version': 'v1.2.3 verif', 'Conventions': 'CMR/Timeseries/SHOC'}
    ds = xr.Dataset(
        data_vars={lat_name: lat, lon_name: lon, **extra_vars,
                   'time': time_variable('time', time_dim, nt),
                   depth_name: depth_variable(depth_name, depth_dim, nk), **data_vars},
        attrs=attrs)
    coord_names = ['time', depth_name]
    if coords_as == 'coord':
        coord_names += [lat_name, lon_name]
    ds = ds.set_coords(coord_names)

    centres = []
    for j in range(ny):
        for i in range(nx):
            centres.append(None if (j, i) in holes else (float(cx[j, i]), float(cy[j, i])))
    hole_points = [(float(cx[j, i]), float(cy[j, i])) for (j, i) in sorted(holes)]

    for (dj, di) in (spec.get('darts') or []) if bounds == 'stored' else []:
        # a concave ("dart") cell: the third listed corner is pulled inside, past the diagonal
        if (dj, di) in holes:
            continue
        corners = cell_corners(x, y, dj, di)
        which = (dj + di + spec.get('dart_corner', 2)) % 4     # the reflex corner sits at every position of the listed order
        (xo, yo), (xp, yp) = corners[(which + 2) % 4], corners[which]
        corners[which] = (xo + 0.25 * (xp - xo), yo + 0.25 * (yp - yo))
        polygons[dj * nx + di] = corners
        for name, column in (('lon_bnds', 0), ('lat_bnds', 1)):
            values = ds[name].values.copy()
            values[dj, di] = [c[column] for c in corners]
            ds[name] = (ds[name].dims, values, ds[name].attrs)

    bowtie = spec.get('bowtie')
    if bowtie is not None and bounds == 'stored':
        # one cell lists its corners in a self-intersecting order
        bj, bi = bowtie
        for name in ('lon_bnds', 'lat_bnds'):
            values = ds[name].values.copy()
            values[bj, bi, [1, 2]] = values[bj, bi, [2, 1]]
            ds[name] = (ds[name].dims, values, ds[name].attrs)
        polygons[bj * nx + bi] = None

    truth = Truth(
        hole_points=hole_points, bowtie=(None if bowtie is None else bowtie[0] * nx + bowtie[1]),
        family=spec['family'], convention='ShocSimple' if shoc else 'CFGrid2D', kinds=kinds,
        default_kind='face', vars=truths, polygons=polygons,
        polygon_compare='sequence' if bounds == 'stored' else 'equals',
        judged=[bool(v) for v in judged.ravel()], centres=centres, centre_mode='stored',
        shift=shift, time_dim=time_dim, depth_dim=depth_dim, time_name='time',
        depth_names=[depth_name], holes=sorted(holes),
        geometry_names=[lon_name, lat_name] + (['lon_bnds', 'lat_bnds'] if extra_vars else []),
        sizes=sizes, lat_name=lat_name, lon_name=lon_name, explicit=(bounds == 'stored'),
        # corners derived from centres collapse along a size-1 axis: no defined cell geometry there
        defined=(bounds == 'stored' or (ny > 1 and nx > 1)),
    )
    return ds, truth


# ------------------------------------------------------------------------------------------------
# Arakawa C / SHOC standard

DRY_SETS = {
    'none': lambda nj, ni: set(),
    'corner': lambda nj, ni: {(j, i) for j in range(min(2, nj)) for i in range(min(2, ni))} if nj * ni > 4 else set(),
    'interior': lambda nj, ni: {(1, 1)} if nj > 2 and ni > 2 else set(),
    'row': lambda nj, ni: {(0, i) for i in range(ni)} if nj > 1 else set(),
    'farcorner': lambda nj, ni: {(nj - 1, ni - 1)} if nj * ni > 1 else set(),
}


def build_shoc_standard(spec: dict) -> tuple[xr.Dataset, Truth]:
    nj, ni = spec['nj'], spec['ni']
    geometry = spec.get('geometry', 'rect')
    dry_name = spec.get('dry', 'none')
    coords_as = spec.get('coords_as', 'coord')
    shift = spec.get('seed', 0) % 5
    nt, nk = spec.get('nt', NT), spec.get('nk', NK)
    dry = DRY_SETS[dry_name](nj, ni)

    x, y = node_lattice(nj, ni, geometry, spec.get('lon0', 10.0), spec.get('lat0', -2.0))
    # nodes are missing where every surrounding cell is dry
    node_missing = np.zeros((nj + 1, ni + 1), dtype=bool)
    for J in range(nj + 1):
        for I in range(ni + 1):
            around = [(J + dj, I + di) for dj in (-1, 0) for di in (-1, 0)
                      if 0 <= J + dj < nj and 0 <= I + di < ni]
            node_missing[J, I] = all(c in dry for c in around)
    if spec.get('ragged') and nj >= 3 and ni >= 3 and {(0, 0), (0, 1), (1, 0), (1, 1)} <= dry:
        # a finite node that belongs to no cell with geometry (the outer corner of a dry block)
        node_missing[0, 0] = False
    xg, yg = x.copy(), y.copy()
    xg[node_missing] = np.nan
    yg[node_missing] = np.nan

    xc = (x[:-1, :-1] + x[:-1, 1:] + x[1:, 1:] + x[1:, :-1]) / 4
    yc = (y[:-1, :-1] + y[:-1, 1:] + y[1:, 1:] + y[1:, :-1]) / 4
    for (j, i) in dry:
        xc[j, i] = np.nan
        yc[j, i] = np.nan
    xl = (xg[:-1, :] + xg[1:, :]) / 2   # left edges: (nj, ni+1)
    yl = (yg[:-1, :] + yg[1:, :]) / 2
    xb = (xg[:, :-1] + xg[:, 1:]) / 2   # back edges: (nj+1, ni)
    yb = (yg[:, :-1] + yg[:, 1:]) / 2

    dims = {
        'face': ('j_centre', 'i_centre'), 'left': ('j_left', 'i_left'),
        'back': ('j_back', 'i_back'), 'node': ('j_node', 'i_node'),
    }
    shapes = {'face': (nj, ni), 'left': (nj, ni + 1), 'back': (nj + 1, ni), 'node': (nj + 1, ni + 1)}
    kinds = {k: {'dims': dims[k], 'shape': shapes[k]} for k in ('face', 'left', 'back', 'node')}
    sizes = {'record': nt, 'k_centre': nk, 'k_grid': nk + 1}
    for k in kinds:
        for d, s in zip(dims[k], shapes[k]):
            sizes[d] = s

    def coord(values, kind, name, std, units):
        return xr.DataArray(values, dims=dims[kind], name=name, attrs={
            'long_name': f'{std} at {kind}', 'units': units, 'coordinate_type': std, 'projection': 'geographic'})

    coords = {
        'x_grid': coord(xg, 'node', 'x_grid', 'longitude', 'degrees_east'),
        'y_grid': coord(yg, 'node', 'y_grid', 'latitude', 'degrees_north'),
        'x_centre': coord(xc, 'face', 'x_centre', 'longitude', 'degrees_east'),
        'y_centre': coord(yc, 'face', 'y_centre', 'latitude', 'degrees_north'),
        'x_left': coord(xl, 'left', 'x_left', 'longitude', 'degrees_east'),
        'y_left': coord(yl, 'left', 'y_left', 'latitude', 'degrees_north'),
        'x_back': coord(xb, 'back', 'x_back', 'longitude', 'degrees_east'),
        'y_back': coord(yb, 'back', 'y_back', 'latitude', 'degrees_north'),
    }
    if spec.get('transposed_lon'):
        # the face longitude lists its dimensions in the other order than the face latitude
        coords['x_centre'] = xr.DataArray(np.ascontiguousarray(xc.T), dims=dims['face'][::-1], name='x_centre',
                                          attrs=coords['x_centre'].attrs)
    data_vars, truths = standard_variables(kinds, 'record', 'k_centre', sizes, 'face', shift,
                                           ints=spec.get('ints', False))
    z_centre = depth_variable('z_centre', 'k_centre', nk, positive='up', deep_to_shallow=True)
    z_grid = xr.DataArray(-(np.arange(nk + 1)[::-1]).astype('float64'), dims=['k_grid'], name='z_grid',
                          attrs={'long_name': 'layer interfaces', 'coordinate_type': 'Z', 'positive': 'up'})
    ds = xr.Dataset(
        data_vars={**coords, 't': time_variable('t', 'record', nt),
                   'z_centre': z_centre, 'z_grid': z_grid, **data_vars},
        attrs={'title': 'verif shoc standard', 'ems_version': 'v1.2.3 verif',
               'Conventions': 'CMR/Timeseries/SHOC'})
    coord_names = ['t', 'z_centre', 'z_grid']
    if coords_as == 'coord':
        coord_names += list(coords)
    ds = ds.set_coords(coord_names)

    polygons: list = []
    centres: list = []
    for j in range(nj):
        for i in range(ni):
            corners = cell_corners(xg, yg, j, i)
            if any(np.isnan(c[0]) or np.isnan(c[1]) for c in corners):
                polygons.append(None)
            else:
                polygons.append(corners)
            centres.append(None if (j, i) in dry else (float(xc[j, i]), float(yc[j, i])))
    xfull = (x[:-1, :-1] + x[:-1, 1:] + x[1:, 1:] + x[1:, :-1]) / 4
    yfull = (y[:-1, :-1] + y[:-1, 1:] + y[1:, 1:] + y[1:, :-1]) / 4
    hole_points = [(float(xfull[j, i]), float(yfull[j, i])) for j in range(nj) for i in range(ni)
                   if polygons[j * ni + i] is None]

    truth = Truth(
        hole_points=hole_points, bowtie=None,
        family='shoc_standard', convention='ShocStandard', kinds=kinds, default_kind='face',
        vars=truths, polygons=polygons, polygon_compare='sequence', centres=centres,
        centre_mode='stored', shift=shift, time_dim='record', depth_dim='k_centre', time_name='t',
        depth_names=['z_centre', 'z_grid'], dry=sorted(dry), geometry_names=list(coords),
        sizes=sizes, defined=True, explicit=True,
    )
    return ds, truth


# ------------------------------------------------------------------------------------------------
# UGRID meshes


def _lattice_mesh(rows: int, cols: int):
    nodes = [(float(i), float(j)) for j in range(rows + 1) for i in range(cols + 1)]
    faces = []
    for j in range(rows):
        for i in range(cols):
            a = j * (cols + 1) + i
            faces.append([a, a + 1, a + cols + 2, a + cols + 1])
    return nodes, faces


def mesh_library(name: str):
    """(node coordinates, faces as lists of node indexes).  All faces simple, interiors disjoint."""
    if name == 'M1':
        return [(0., 0.), (1., 0.), (1., 1.), (0., 1.)], [[0, 1, 2], [0, 2, 3]]
    if name == 'M2':
        return _lattice_mesh(1, 3)
    if name == 'M3':
        return _lattice_mesh(2, 2)
    if name == 'M4':
        nodes = [(0., 0.), (1., 0.), (2., 0.), (2., 1.5), (1., 1.), (0., 1.), (1.5, 2.5), (0., 2.)]
        return nodes, [[0, 1, 4, 5], [1, 2, 4], [5, 4, 3, 6, 7]]
    if name == 'M5':
        inner = [(1., 0.), (2., 0.), (3., 1.), (2., 2.), (1., 2.), (0., 1.)]
        outer = [(2 * x - 1.5, 2 * y - 1.0) for x, y in inner]
        nodes = inner + outer
        faces = [[0, 1, 2, 3, 4, 5]]
        for k in range(6):
            k2 = (k + 1) % 6
            faces.append([k, 6 + k, 6 + k2, k2])
        return nodes, faces
    if name == 'M6':
        nodes = [(0., 0.), (1., 0.), (0., 1.), (1., 1.), (2., 1.), (2., 2.), (1., 2.),
                 (4., 0.), (5., 0.), (4., 1.)]
        return nodes, [[0, 1, 2], [1, 3, 2], [3, 4, 5, 6], [7, 8, 9]]
    if name == 'M7':
        return _lattice_mesh(3, 4)
    if name == 'M8':
        nodes = [(0., 0.), (2., 0.), (2., 1.), (1., 1.), (1., 2.), (0., 2.), (2., 2.), (3., 0.), (3., 2.)]
        return nodes, [[0, 1, 2, 3, 4, 5], [3, 2, 6, 4], [1, 7, 8, 6, 2]]
    if name == 'M11':
        # a square cut into six triangles around two interior nodes: as many nodes as faces
        nodes = [(0., 0.), (3., 0.), (3., 3.), (0., 3.), (1., 1.5), (2., 1.5)]
        return nodes, [[0, 1, 4], [1, 5, 4], [1, 2, 5], [2, 3, 5], [3, 4, 5], [3, 0, 4]]
    if name == 'M10':
        nodes, faces = mesh_library('M4')
        return nodes + [(1.0, 0.5), (0.25, 1.5)], faces
    if name == 'M14':
        # an arrow-head quad (concave at node 1), the triangle that fills its notch, and a triangle hanging below:
        # nodes 0 and 2 are both corners of the quad, but 0-2 is a diagonal of it, not a side
        nodes = [(0., 0.), (1., 1.), (2., 0.), (1., 3.), (1., -1.)]
        return nodes, [[0, 1, 2, 3], [0, 2, 1], [0, 4, 2]]
    if name == 'M15':
        # the arrow head with its notch left open
        nodes = [(0., 0.), (1., 1.), (2., 0.), (1., 3.), (1., -1.)]
        return nodes, [[0, 1, 2, 3], [0, 4, 2]]
    if name == 'M13':
        # two partitions stitched together: the nodes along the seam exist twice, with identical coordinates
        nodes = [(0., 0.), (1., 0.), (1., 1.), (0., 1.), (1., 0.), (2., 0.), (2., 1.), (1., 1.), (2., 2.), (1., 2.)]
        return nodes, [[0, 1, 2, 3], [4, 5, 6, 7], [7, 6, 8, 9], [3, 2, 9]]
    if name == 'M12':
        # M4 plus nodes that belong to no face and lie far outside every face
        nodes, faces = mesh_library('M4')
        return nodes + [(50.0, 50.0), (-7.0, 0.5)], faces
    if name == 'M9':
        # M7 with the winding of every other face reversed (clockwise faces are legal polygons)
        nodes, faces = _lattice_mesh(3, 4)
        return nodes, [f if k % 2 == 0 else f[::-1] for k, f in enumerate(faces)]
    raise ValueError(name)


def mesh_tables(faces: list) -> dict:
    """Connectivity by definition, with a deliberately non-canonical edge numbering: edges in
    reverse order of first appearance, every second edge listed high node first."""
    seen: dict = {}
    for face in faces:
        n = len(face)
        for k in range(n):
            pair = frozenset((face[k], face[(k + 1) % n]))
            if pair not in seen:
                seen[pair] = (face[k], face[(k + 1) % n])
    ordered = list(seen.items())[::-1]
    edge_node = []
    edge_index = {}
    for e, (pair, (a, b)) in enumerate(ordered):
        lo, hi = min(a, b), max(a, b)
        edge_node.append([hi, lo] if e % 2 else [lo, hi])
        edge_index[pair] = e
    face_edge = []
    for face in faces:
        n = len(face)
        face_edge.append([edge_index[frozenset((face[k], face[(k + 1) % n]))] for k in range(n)])
    edge_face: list = [[] for _ in edge_node]
    for f, edges in enumerate(face_edge):
        for e in edges:
            edge_face[e].append(f)
    face_face = []
    for f, edges in enumerate(face_edge):
        row = []
        for e in edges:
            others = [g for g in edge_face[e] if g != f]
            row.append(others[0] if others else None)
        face_face.append(row)
    edge_face_padded = [ef + [None] * (2 - len(ef)) for ef in edge_face]
    return {
        'edge_node': edge_node, 'face_edge': face_edge,
        'edge_face': edge_face_padded, 'face_face': face_face,
    }


def _encode_table(rows: list, width: int, start_index: int, fill_mode: str, fill_value: int = -1, dtype: str = 'int32'):
    """Return (values array, attrs, needs_fill)."""
    needs_fill = any(len(r) < width or any(v is None for v in r) for r in rows)
    padded = [list(r) + [None] * (width - len(r)) for r in rows]
    attrs: dict[str, Any] = {'start_index': start_index}
    if needs_fill and fill_mode == 'nan':
        values = np.array([[np.nan if v is None else v + start_index for v in r] for r in padded], dtype='float64')
    elif needs_fill:
        values = np.array([[fill_value if v is None else v + start_index for v in r] for r in padded], dtype=dtype)
        attrs['_FillValue'] = np.dtype(dtype).type(fill_value)
    elif fill_mode == 'nan':
        values = np.array([[v + start_index for v in r] for r in padded], dtype='float64')
    else:
        values = np.array([[v + start_index for v in r] for r in padded], dtype=dtype)
    return values, attrs, needs_fill


FACE_DIM, NODE_DIM, EDGE_DIM, MAXN_DIM, TWO_DIM = (
    'nMesh2_face', 'nMesh2_node', 'nMesh2_edge', 'nMaxMesh2_face_nodes', 'Two')

OPTIONAL_TABLES = ('edge_node', 'face_edge', 'edge_face', 'face_face')


def build_ugrid(spec: dict) -> tuple[xr.Dataset, Truth]:
    mesh = spec['mesh']
    start_index = spec.get('start_index', 0)
    fill_mode = spec.get('fill', 'nan')           # nan | fillattr
    transposed = spec.get('transposed', False)
    supplied = tuple(spec.get('supplied', ()))     # subset of OPTIONAL_TABLES
    edge_dim_mode = spec.get('edge_dim', 'auto')   # declared | implied | absent | auto
    coords_as = spec.get('coords_as', 'var')       # var | coord
    face_coords = spec.get('face_coords', False)
    shift = spec.get('seed', 0) % 5
    nt, nk = spec.get('nt', NT), spec.get('nk', NK)

    if 'nodes' in spec:
        nodes, faces = [tuple(p) for p in spec['nodes']], [list(f) for f in spec['faces']]
    else:
        nodes, faces = mesh_library(mesh)
    if 'lon0' in spec or 'lat0' in spec:
        nodes = [(x + spec.get('lon0', 0.0), y + spec.get('lat0', 0.0)) for x, y in nodes]
    bowtie = spec.get('bowtie')
    stored_faces = [list(f) for f in faces]
    if bowtie is not None:
        f = stored_faces[bowtie]
        f[1], f[2] = f[2], f[1]
    tables = mesh_tables(faces)
    if spec.get('edge_face_missing_first'):
        # a boundary edge may list its missing neighbour first
        tables['edge_face'] = [ef[::-1] if ef[1] is None and e % 2 == 0 else ef for e, ef in enumerate(tables['edge_face'])]
    nface, nnode, nedge = len(faces), len(nodes), len(tables['edge_node'])
    width = max(len(f) for f in faces) + int(spec.get('extra_width', 0))

    has_edge_table = 'edge_node' in supplied or 'edge_face' in supplied
    if edge_dim_mode == 'auto':
        edge_dim_mode = 'declared' if has_edge_table or 'face_edge' in supplied else 'absent'
    if edge_dim_mode == 'implied' and not has_edge_table:
        raise ValueError("implied edge dimension needs an edge table")
    has_edges = edge_dim_mode in ('declared', 'implied')
    # the edge dimension only has a size in the dataset if some variable uses it
    edge_sized = has_edges and has_edge_table

    variables: dict[str, xr.DataArray] = {}
    node_x = xr.DataArray(np.array([p[0] for p in nodes]), dims=[NODE_DIM], name='Mesh2_node_x', attrs={
        'standard_name': 'longitude', 'units': 'degrees_east', 'long_name': 'node longitude'})
    node_y = xr.DataArray(np.array([p[1] for p in nodes]), dims=[NODE_DIM], name='Mesh2_node_y', attrs={
        'standard_name': 'latitude', 'units': 'degrees_north', 'long_name': 'node latitude'})
    variables['Mesh2_node_x'] = node_x
    variables['Mesh2_node_y'] = node_y

    mesh_attrs: dict[str, Any] = {
        'cf_role': 'mesh_topology', 'long_name': 'Topology data of 2D unstructured mesh',
        'topology_dimension': 2, 'node_coordinates': 'Mesh2_node_x Mesh2_node_y',
        'face_node_connectivity': 'Mesh2_face_nodes',
    }

    bases = spec.get('start_index_by_table', {})

    def add_table(var_name, role, rows, primary_dim, width_, other_dim):
        base = bases.get(role.replace('_connectivity', ''), start_index)
        values, attrs, _ = _encode_table(rows, width_, base, fill_mode, fill_value=spec.get('fill_value', -1),
                                         dtype=spec.get('conn_dtype', 'int32'))
        if base == 0 and spec.get('omit_zero_start_index'):
            attrs.pop('start_index')
        if spec.get('start_index_as') == 'float' and 'start_index' in attrs:
            attrs['start_index'] = float(attrs['start_index'])      # written as a double by some tools
        attrs = {'cf_role': role, 'long_name': role, **attrs}
        dims = [primary_dim, other_dim]
        if transposed:
            values = values.T.copy()
            dims = dims[::-1]
        variables[var_name] = xr.DataArray(values, dims=dims, name=var_name, attrs=attrs)
        mesh_attrs[role] = var_name

    add_table('Mesh2_face_nodes', 'face_node_connectivity', stored_faces, FACE_DIM, width, MAXN_DIM)
    if 'edge_node' in supplied:
        add_table('Mesh2_edge_nodes', 'edge_node_connectivity', tables['edge_node'], EDGE_DIM, 2, spec.get('two_dim', TWO_DIM))
    if 'face_edge' in supplied:
        # (the padding dimension of this table may have a name of its own: nothing ties it to the face-node one)
        add_table('Mesh2_face_edges', 'face_edge_connectivity', tables['face_edge'], FACE_DIM, width, spec.get('face_edge_dim', MAXN_DIM))
    if 'edge_face' in supplied:
        add_table('Mesh2_edge_faces', 'edge_face_connectivity', tables['edge_face'], EDGE_DIM, 2, spec.get('two_dim', TWO_DIM))
    if 'face_face' in supplied:
        add_table('Mesh2_face_links', 'face_face_connectivity', tables['face_face'], FACE_DIM, width, spec.get('face_face_dim', MAXN_DIM))

    if transposed or spec.get('face_dimension_attr', True):
        mesh_attrs['face_dimension'] = FACE_DIM
    if edge_dim_mode == 'declared' or (transposed and has_edges):
        mesh_attrs['edge_dimension'] = EDGE_DIM

    if face_coords:
        # stored face centres: mean of the vertices (differs from the centroid for irregular faces)
        fx = np.array([sum(nodes[n][0] for n in f) / len(f) for f in faces])
        fy = np.array([sum(nodes[n][1] for n in f) / len(f) for f in faces])
        variables['Mesh2_face_x'] = xr.DataArray(fx, dims=[FACE_DIM], attrs={'long_name': 'face x', 'units': 'degrees_east'})
        variables['Mesh2_face_y'] = xr.DataArray(fy, dims=[FACE_DIM], attrs={'long_name': 'face y', 'units': 'degrees_north'})
        mesh_attrs['face_coordinates'] = 'Mesh2_face_x Mesh2_face_y'
        if spec.get('face_bounds'):
            # the optional bounds of the face coordinates (UGRID conventions, "Mesh2_face_xbnds")
            for axis, name in ((0, 'Mesh2_face_xbnds'), (1, 'Mesh2_face_ybnds')):
                rows = [[nodes[n][axis] for n in f] + [np.nan] * (width - len(f)) for f in faces]
                variables[name] = xr.DataArray(np.array(rows), dims=[FACE_DIM, MAXN_DIM], attrs={'long_name': f'bounds of the face centres, axis {axis}'})
            variables['Mesh2_face_x'].attrs['bounds'] = 'Mesh2_face_xbnds'
            variables['Mesh2_face_y'].attrs['bounds'] = 'Mesh2_face_ybnds'

    if spec.get('second_mesh') != 'first':
        variables['Mesh2'] = xr.DataArray(np.int32(0), name='Mesh2', attrs=mesh_attrs)
    if spec.get('second_mesh'):
        # an unrelated one-dimensional network in the same file
        variables['Mesh1_edge_nodes'] = xr.DataArray(np.array([[0, 1], [1, 2]], dtype='int32'), dims=['nMesh1_edge', 'Two'],
                                                     attrs={'cf_role': 'edge_node_connectivity', 'start_index': 0})
        variables['Mesh1'] = xr.DataArray(np.int32(0), name='Mesh1', attrs={
            'cf_role': 'mesh_topology', 'topology_dimension': 1, 'node_coordinates': 'Mesh2_node_x Mesh2_node_y',
            'edge_node_connectivity': 'Mesh1_edge_nodes'})
    if spec.get('second_mesh') == 'first':
        # ... listed before the two-dimensional mesh (1D2D model output: mesh1d, then mesh2d)
        variables['Mesh2'] = xr.DataArray(np.int32(0), name='Mesh2', attrs=mesh_attrs)

    kinds = {'face': {'dims': (FACE_DIM,), 'shape': (nface,)}, 'node': {'dims': (NODE_DIM,), 'shape': (nnode,)}}
    sizes = {FACE_DIM: nface, NODE_DIM: nnode, 'record': nt, 'Mesh2_layers': nk}
    data_kinds = dict(kinds)
    if has_edges:
        kinds['edge'] = {'dims': (EDGE_DIM,), 'shape': (nedge,)}
        if edge_sized:
            sizes[EDGE_DIM] = nedge
            data_kinds['edge'] = kinds['edge']
    data_vars, truths = standard_variables(data_kinds, 'record', 'Mesh2_layers', sizes, 'face', shift,
                                           ints=spec.get('ints', False))

    ds = xr.Dataset(
        data_vars={**variables, **data_vars, 't': time_variable('t', 'record', nt),
                   'Mesh2_layers': depth_variable('Mesh2_layers', 'Mesh2_layers', nk, positive='up')},
        attrs={'title': 'verif ugrid', 'Conventions': 'UGRID-1.0'})
    coord_names = ['t', 'Mesh2_layers']
    if coords_as == 'coord':
        coord_names += ['Mesh2_node_x', 'Mesh2_node_y']
        if face_coords:
            coord_names += ['Mesh2_face_x', 'Mesh2_face_y']
    ds = ds.set_coords(coord_names)

    polygons = [[nodes[n] for n in f] for f in faces]
    if bowtie is not None:
        polygons[bowtie] = None
    if face_coords:
        centres = [(float(fx[k]), float(fy[k])) for k in range(nface)]
        centre_mode = 'stored'
    else:
        centres = [None] * nface
        centre_mode = 'centroid'
    geometry_names = [k for k in variables]
    truth = Truth(
        hole_points=[], bowtie=bowtie,
        family='ugrid', convention='UGrid', kinds=kinds, data_kinds=data_kinds, default_kind='face',
        vars=truths, polygons=polygons, polygon_compare='sequence', centres=centres,
        centre_mode=centre_mode, shift=shift, time_dim='record', depth_dim='Mesh2_layers',
        time_name='t', depth_names=['Mesh2_layers'], nodes=nodes, faces=faces, tables=tables,
        supplied=supplied, has_edges=has_edges, edge_sized=edge_sized, geometry_names=geometry_names,
        sizes=sizes, defined=True, explicit=True, start_index=start_index, width=width,
    )
    return ds, truth


# ------------------------------------------------------------------------------------------------

BUILDERS = {
    'cf1d': build_cf1d, 'cf2d': build_cf2d, 'shoc_simple': build_cf2d,
    'shoc_standard': build_shoc_standard, 'ugrid': build_ugrid,
}


def build(spec: dict) -> tuple[xr.Dataset, Truth]:
    ds, truth = BUILDERS[spec['family']](spec)
    if spec.get('fortran'):
        # the same values held column-major (as after .T, transpose(), or reading some other formats)
        for name in list(ds.variables):
            if ds[name].ndim >= 2:
                was_coord = name in ds.coords
                encoding = dict(ds[name].encoding)
                ds[name] = (ds[name].dims, np.asfortranarray(ds[name].values), ds[name].attrs)
                ds[name].encoding.update(encoding)
                if was_coord:
                    ds = ds.set_coords(name)
    if spec.get('big_endian'):
        # the arrays of a classic-format netCDF file read through scipy: big-endian numbers
        for name in list(ds.variables):
            variable = ds[name]
            if variable.dtype.kind in 'fiu' and variable.dtype.itemsize > 1:
                was_coord = name in ds.coords
                encoding = dict(variable.encoding)
                ds[name] = (variable.dims, variable.values.astype(variable.dtype.newbyteorder('>')), variable.attrs)
                ds[name].encoding.update(encoding)
                if was_coord:
                    ds = ds.set_coords(name)
    if spec.get('pack_coords'):
        # coordinates packed as scaled integers on disk, missing values as the integer fill value
        for name in truth.geometry_names:
            if name in ds.variables and ds[name].dtype.kind == 'f':
                ds[name].encoding.update({'dtype': 'int32', 'scale_factor': 2.0 ** -12, 'add_offset': 0.0, '_FillValue': -2 ** 31})
    if spec.get('decoy'):
        ds = add_decoy(ds, truth)
    if spec.get('declare_reversed'):
        # Declare the dimensions of every grid in the opposite order to the convention's: a first
        # variable carries them reversed, so dataset.sizes / dataset.dims list e.g. x before y.
        # The coordinate variables (and therefore the convention's own order) are untouched.
        probes = {}
        for kind, info in truth.kinds.items():
            dims = tuple(info['dims'])
            if len(dims) == 2 and all(d in ds.sizes for d in dims):
                probes[f'declared_{kind}'] = xr.DataArray(
                    np.zeros(tuple(ds.sizes[d] for d in dims[::-1])), dims=dims[::-1], attrs={'long_name': 'declares dimension order'})
        coords = list(ds.coords)
        reordered = xr.Dataset({**probes, **{name: ds[name].variable for name in ds.variables}}, attrs=ds.attrs)
        reordered = reordered.set_coords(coords)
        for name in ds.variables:
            reordered[name].encoding.update(ds[name].encoding)
        ds = reordered
    if spec.get('plugin') == 'holed':
        get_convention(ds, truth, spec)
        truth['bound_explicitly'] = True
        for n in spec['plugin_missing']:
            truth['polygons'][int(n)] = None
    elif spec.get('explicit_names'):
        # the convention constructed by hand with its coordinates named, and bound, before anything else happens
        get_convention(ds, truth, spec)
        truth['bound_explicitly'] = True
    if spec.get('history'):
        ds = apply_history(ds, truth, spec['history'])
    return ds, truth


def add_decoy(ds: xr.Dataset, truth) -> xr.Dataset:
    """Another pair of latitude / longitude variables (a staggered grid of another shape) listed before
    the real ones: what autodetection finds first.  Only meaningful with 'explicit_names'."""
    family = truth['family']
    lat, lon = ds[truth['lat_name']], ds[truth['lon_name']]
    lat_attrs = {'units': 'degrees_north', 'standard_name': 'latitude', 'long_name': 'latitude at u points', 'axis': 'Y'}
    lon_attrs = {'units': 'degrees_east', 'standard_name': 'longitude', 'long_name': 'longitude at u points', 'axis': 'X'}
    if family == 'cf1d':
        ny, nx = lat.size, lon.size
        first = {
            'lat_u': xr.DataArray(-60.0 + 0.25 * np.arange(ny + 1), dims=['y_u'], attrs=lat_attrs),
            'lon_u': xr.DataArray(40.0 + 0.25 * np.arange(nx + 2), dims=['x_u'], attrs=lon_attrs),
        }
    else:
        ny, nx = lat.shape
        jj, ii = np.meshgrid(np.arange(ny + 1), np.arange(nx + 2), indexing='ij')
        first = {
            'lat_u': xr.DataArray(-60.0 + 0.25 * jj + 0.0625 * ii, dims=['j_u', 'i_u'], attrs=lat_attrs),
            'lon_u': xr.DataArray(40.0 + 0.25 * ii, dims=['j_u', 'i_u'], attrs=lon_attrs),
        }
    first['u_decoy'] = xr.DataArray(np.zeros(first['lat_u'].shape if family != 'cf1d' else (first['lat_u'].size, first['lon_u'].size)),
                                    dims=(first['lat_u'].dims if family != 'cf1d' else ('y_u', 'x_u')), attrs={'long_name': 'on the other grid'})
    coords = [str(c) for c in ds.coords]
    out = xr.Dataset({**first, **{name: ds[name].variable for name in ds.variables}}, attrs=ds.attrs)
    out = out.set_coords([c for c in coords if c in out.variables])
    for name in ds.variables:
        out[name].encoding.update(ds[name].encoding)
    return out


def get_convention(ds: xr.Dataset, truth: Truth, spec: dict):
    """The convention object for a case: autodetected through the accessor, or -- with 'explicit_names' --
    constructed by hand through the documented keyword path and bound."""
    if truth.get('bound_explicitly'):
        return ds.ems
    if spec.get('plugin') == 'holed':
        # a plugin convention derived from a built-in one through the documented hook: some cells are land, no polygon
        from emsarray.conventions.grid import CFGrid1D
        missing = sorted(int(n) for n in spec['plugin_missing'])

        class LandMaskedGrid(CFGrid1D):
            def _make_polygons(self):
                polygons = super()._make_polygons().copy()
                polygons[missing] = None
                return polygons
        LandMaskedGrid(ds).bind()
        return ds.ems
    if not spec.get('explicit_names'):
        return ds.ems
    family = truth['family']
    if family in ('cf1d', 'cf2d'):
        from emsarray.conventions.grid import CFGrid1D, CFGrid2D
        cls = CFGrid1D if family == 'cf1d' else CFGrid2D
        convention = cls(ds, latitude=truth['lat_name'], longitude=truth['lon_name'])
    elif family == 'shoc_standard':
        from emsarray.conventions.arakawa_c import ArakawaC
        convention = ArakawaC(ds, coordinate_names={
            'face': ('y_centre', 'x_centre'), 'left': ('y_left', 'x_left'),
            'back': ('y_back', 'x_back'), 'node': ('y_grid', 'x_grid')})
    else:
        return ds.ems
    convention.bind()
    return ds.ems


def native_index(truth: Truth, kind: str, multi_index: tuple):
    """The convention's native index for (grid kind, per-dimension indexes)."""
    family = truth['family']
    if family in ('cf1d', 'cf2d', 'shoc_simple'):
        return tuple(int(v) for v in multi_index)
    if family == 'shoc_standard':
        from emsarray.conventions.arakawa_c import ArakawaCGridKind
        return (ArakawaCGridKind(kind), *[int(v) for v in multi_index])
    if family == 'ugrid':
        from emsarray.conventions.ugrid import UGridKind
        return (UGridKind(kind), int(multi_index[0]))
    raise ValueError(family)


def grid_kind_object(truth: Truth, kind: str):
    family = truth['family']
    if family in ('cf1d', 'cf2d', 'shoc_simple'):
        from emsarray.conventions.grid import CFGridKind
        return CFGridKind(kind)
    if family == 'shoc_standard':
        from emsarray.conventions.arakawa_c import ArakawaCGridKind
        return ArakawaCGridKind(kind)
    from emsarray.conventions.ugrid import UGridKind
    return UGridKind(kind)


# ----------------------------------------------------------------------------------- histories
#
# What had already happened to a dataset (and to the convention object bound to it) before the
# call under test.  None of these operations changes what the dataset describes, so the reference
# answers (Truth) are those of the freshly built dataset.

HISTORY_OPS = ('warm', 'copy', 'deepcopy', 'pickle', 'reopen', 'chunk', 'clipped')


def warm(ds: xr.Dataset, truth) -> None:
    """Use the convention bound to `ds` the way an earlier part of a program would have:
    every cached property and every kind of operation once, results discarded."""
    import warnings
    convention = ds.ems
    centre = None
    calls = [
        lambda: convention.polygons, lambda: convention.mask, lambda: convention.strtree,
        lambda: convention.bounds, lambda: convention.geometry, lambda: convention.face_centres,
        lambda: convention.grid_kinds, lambda: convention.default_grid_kind, lambda: convention.grid_size,
        lambda: convention.depth_coordinates, lambda: convention.time_coordinate,
        lambda: convention.get_all_geometry_names(),
        lambda: convention.get_index_for_point(centre),
        lambda: convention.select_point(centre),
        lambda: convention.select_index(convention.wind_index(0)),
        lambda: convention.ravel(ds['botz']),
        lambda: convention.make_clip_mask(next(p for p in convention.polygons if p is not None), buffer=1),
        lambda: convention.ocean_floor(),
        lambda: convention.normalize_depth_variables(positive_down=False, deep_to_shallow=True),
        lambda: convention.drop_geometry(),
        lambda: convention.select_variables(['botz']),
        lambda: convention.make_poly_collection(),
    ]
    try:
        centre = next(p for p in convention.polygons if p is not None).representative_point()
    except Exception:  # noqa: BLE001
        centre = None
    with warnings.catch_warnings():
        warnings.simplefilter('ignore')
        for call in calls:
            try:
                call()
            except Exception:  # noqa: BLE001  (a defect here is for the check that owns the operation to report)
                pass


def apply_history(ds: xr.Dataset, truth, ops) -> xr.Dataset:
    import pickle
    for op in ops:
        if op == 'warm':
            warm(ds, truth)
        elif op == 'copy':
            ds = ds.copy()
        elif op == 'deepcopy':
            ds = ds.copy(deep=True)
        elif op == 'pickle':
            ds = pickle.loads(pickle.dumps(ds))
        elif op == 'reopen':
            with env_scratch() as tmp:
                with reopen(ds, tmp, 'history.nc') as opened:
                    ds = opened.load()
        elif op == 'clipped':
            # the dataset has been clipped (to a region covering all of it) and the result thrown away
            import shapely
            import warnings
            with env_scratch() as tmp, warnings.catch_warnings():
                warnings.simplefilter('ignore')
                try:
                    everything = shapely.box(*shapely.union_all([p for p in ds.ems.polygons if p is not None]).buffer(1).bounds)
                    ds.ems.clip(everything, tmp).load()
                except Exception:  # noqa: BLE001  (a defect in clipping itself is for C08 / C09 to report)
                    pass
        elif op == 'chunk':
            # every variable lazily loaded, as after open_mfdataset: coordinates too
            ds = ds.chunk()
        else:
            raise ValueError(op)
    return ds


def env_scratch():
    from . import env
    return env.scratch_dir()


def history_specs(tier: str) -> list[dict]:
    """One dataset per family under every history of length 1 (quick) / <= 2 (thorough)."""
    import itertools
    bases = [
        {'family': 'cf1d', 'ny': 2, 'nx': 3, 'bounds': 'var'},
        {'family': 'cf2d', 'ny': 3, 'nx': 2, 'geometry': 'skew', 'bounds': 'stored', 'holes': 'first'},
        {'family': 'shoc_simple', 'ny': 2, 'nx': 2, 'geometry': 'rect', 'bounds': 'stored'},
        {'family': 'shoc_standard', 'nj': 2, 'ni': 3, 'dry': 'corner'},
        {'family': 'ugrid', 'mesh': 'M6', 'supplied': ['face_face'], 'fill': 'fillattr', 'start_index': 1},
        # conventions constructed by hand for coordinates that autodetection would not have chosen
        {'family': 'cf1d', 'ny': 2, 'nx': 3, 'bounds': 'var', 'decoy': True, 'explicit_names': True},
        {'family': 'cf2d', 'ny': 2, 'nx': 3, 'geometry': 'skew', 'bounds': 'stored', 'decoy': True, 'explicit_names': True},
    ]
    if tier == 'quick':
        histories = [[op] for op in HISTORY_OPS] + [['warm', 'copy'], ['reopen', 'warm'], ['chunk', 'warm'], ['clipped', 'copy']]
    else:
        histories = [[op] for op in HISTORY_OPS] + [list(h) for h in itertools.product(HISTORY_OPS, repeat=2)]
    # a convention bound by hand stays with its dataset object (and travels in its pickle); datasets derived
    # from it are detected afresh, so only histories that keep the object apply
    keeps_binding = (['warm'], ['pickle'], ['clipped'], ['warm', 'pickle'], ['pickle', 'warm'], ['pickle', 'pickle'], ['warm', 'warm'],
                     ['clipped', 'pickle'], ['clipped', 'warm'])
    return [dict(base, history=h) for base in bases for h in histories
            if not base.get('explicit_names') or h in [list(k) for k in keeps_binding]]


def reopen(ds: xr.Dataset, directory: str, name: str = 'input.nc', **kwargs) -> xr.Dataset:
    """Write to netCDF and open again, so encodings are the real on-disk ones."""
    import os
    path = os.path.join(directory, name)
    ds.to_netcdf(path)
    return xr.open_dataset(path, **kwargs)


def shapes(ny_max: int = 4, nx_max: int = 4, minimum: int = 1) -> list[tuple[int, int]]:
    """Grid shapes, simplest first."""
    out = [(a, b) for a in range(minimum, ny_max + 1) for b in range(minimum, nx_max + 1)]
    return sorted(out, key=lambda s: (s[0] * s[1], s))


def family_specs(tier: str, *, holes: bool = True, big: bool = True) -> list[dict]:
    """A representative set of datasets of every family: small shapes (non-square included),
    skewed geometry, holes, and one instance with more than ten cells per family."""
    quick = tier == 'quick'
    specs: list[dict] = []
    small = [(1, 1), (1, 3), (3, 1), (2, 3), (3, 2)] if quick else shapes(3, 3)
    large = [(3, 4)] if quick else [(3, 4), (4, 3), (4, 4)]
    for (a, b) in small + (large if big else []):
        if a >= 2 and b >= 2:
            specs.append({'family': 'cf1d', 'ny': a, 'nx': b})
            specs.append({'family': 'cf1d', 'ny': a, 'nx': b, 'lat_kind': 'desc', 'lon_kind': 'nonuni',
                          'names': 'other', 'coords_as': 'var'})
        specs.append({'family': 'cf1d', 'ny': a, 'nx': b, 'bounds': 'var', 'lon_kind': 'desc'})
        specs.append({'family': 'cf2d', 'ny': a, 'nx': b, 'geometry': 'skew', 'bounds': 'stored'})
        specs.append({'family': 'shoc_simple', 'ny': a, 'nx': b, 'geometry': 'rect', 'bounds': 'stored'})
        specs.append({'family': 'shoc_standard', 'nj': a, 'ni': b, 'geometry': 'skew'})
        if a >= 2 and b >= 2:
            specs.append({'family': 'cf2d', 'ny': a, 'nx': b, 'geometry': 'rect', 'bounds': 'derived'})
        if holes and a * b >= 4:
            for hole in (['interior', 'first'] if quick else ['interior', 'corner', 'row', 'lshape', 'first']):
                specs.append({'family': 'cf2d', 'ny': a, 'nx': b, 'geometry': 'skew', 'bounds': 'stored', 'holes': hole})
                if not quick:
                    specs.append({'family': 'shoc_simple', 'ny': a, 'nx': b, 'geometry': 'rect',
                                  'bounds': 'stored', 'holes': hole})
            for dry in (['corner'] if quick else ['corner', 'interior', 'row', 'farcorner']):
                specs.append({'family': 'shoc_standard', 'nj': a, 'ni': b, 'geometry': 'rect', 'dry': dry})
    for (a, b) in ([(2, 3), (3, 4)] if quick else [(2, 3), (3, 2), (3, 4), (4, 3), (1, 4)]):
        specs.append({'family': 'cf1d', 'ny': a, 'nx': b, 'bounds': 'var', 'declare_reversed': True})
        specs.append({'family': 'cf2d', 'ny': a, 'nx': b, 'geometry': 'skew', 'holes': 'first', 'declare_reversed': True})
        specs.append({'family': 'shoc_standard', 'nj': a, 'ni': b, 'dry': 'farcorner', 'declare_reversed': True})
    # longitudes across 180 (0..360 style), negative longitudes, high latitudes
    specs.append({'family': 'cf1d', 'ny': 2, 'nx': 4, 'bounds': 'var', 'lon0': 179.0, 'lat0': 60.0})
    specs.append({'family': 'cf2d', 'ny': 2, 'nx': 3, 'geometry': 'skew', 'lon0': 179.5, 'lat0': -70.0})
    specs.append({'family': 'shoc_standard', 'nj': 2, 'ni': 3, 'lon0': -180.5, 'lat0': 10.0})
    specs.append({'family': 'ugrid', 'mesh': 'M4', 'lon0': 179.0, 'lat0': -45.0})
    # coordinates in projected metres (magnitudes far beyond degrees); coordinates describing their own valid range
    specs.append({'family': 'cf2d', 'ny': 3, 'nx': 3, 'geometry': 'skew', 'bounds': 'stored', 'lon0': 512250.0, 'lat0': 6945800.0})
    specs.append({'family': 'shoc_standard', 'nj': 2, 'ni': 3, 'lon0': 512250.0, 'lat0': 6945800.0, 'dry': 'corner'})
    specs.append({'family': 'cf1d', 'ny': 3, 'nx': 4, 'valid_range': True})
    specs.append({'family': 'cf1d', 'ny': 3, 'nx': 3, 'lat_kind': 'desc', 'lon_kind': 'nonuni', 'valid_range': True})
    # big-endian arrays (classic netCDF through scipy)
    specs.append({'family': 'cf1d', 'ny': 2, 'nx': 3, 'bounds': 'var', 'big_endian': True})
    specs.append({'family': 'cf2d', 'ny': 3, 'nx': 3, 'bounds': 'derived', 'holes': 'interior', 'big_endian': True})
    specs.append({'family': 'shoc_standard', 'nj': 2, 'ni': 3, 'dry': 'corner', 'big_endian': True})
    specs.append({'family': 'ugrid', 'mesh': 'M4', 'supplied': ['edge_node', 'face_face'], 'fill': 'fillattr', 'start_index': 1, 'big_endian': True})
    # a grid that goes round the globe in 0..360 style with its first cell across Greenwich; cells wider than half a turn
    specs.append({'family': 'cf1d', 'ny': 2, 'nx': 6, 'lon0': 5.0, 'dx': 60.0, 'lat0': -15.0, 'dy': 30.0})
    specs.append({'family': 'cf1d', 'ny': 2, 'nx': 6, 'lon0': -175.0, 'dx': 60.0, 'lat0': -15.0, 'dy': 30.0, 'bounds': 'var'})
    specs.append({'family': 'cf1d', 'ny': 2, 'nx': 2, 'lon0': -100.0, 'dx': 200.0, 'lat0': -40.0, 'dy': 80.0})
    if not quick:
        specs.append({'family': 'cf1d', 'ny': 3, 'nx': 3, 'lon0': 358.5, 'lat0': -89.0, 'lon_kind': 'nonuni'})
        specs.append({'family': 'shoc_simple', 'ny': 2, 'nx': 2, 'lon0': -0.5, 'lat0': -0.5})
    meshes = ['M1', 'M4', 'M6', 'M7'] if quick else ['M1', 'M2', 'M3', 'M4', 'M5', 'M6', 'M7', 'M8', 'M9']
    for mesh in meshes:
        specs.append({'family': 'ugrid', 'mesh': mesh})
        if mesh in ('M6', 'M7', 'M3', 'M5'):
            specs.append({'family': 'ugrid', 'mesh': mesh, 'supplied': ['face_face'], 'fill': 'fillattr'})
        if mesh in ('M4', 'M6'):
            specs.append({'family': 'ugrid', 'mesh': mesh, 'start_index': 1, 'fill': 'fillattr', 'fill_value': 0, 'supplied': ['edge_node']})
    specs.append({'family': 'ugrid', 'mesh': 'M10', 'supplied': ['edge_node']})
    # as many nodes as faces; tables wider than the largest face; mixed index bases; missing neighbour listed first
    specs.append({'family': 'ugrid', 'mesh': 'M11'})
    specs.append({'family': 'ugrid', 'mesh': 'M1', 'extra_width': 1, 'fill': 'fillattr'})
    specs.append({'family': 'ugrid', 'mesh': 'M6', 'supplied': ['edge_node', 'face_face'], 'start_index': 1,
                  'start_index_by_table': {'face_face': 0, 'edge_node': 0}, 'omit_zero_start_index': True})
    specs.append({'family': 'ugrid', 'mesh': 'M7', 'supplied': ['edge_node', 'edge_face'], 'edge_face_missing_first': True, 'fill': 'fillattr'})
    specs.append({'family': 'ugrid', 'mesh': 'M4', 'second_mesh': True})
    specs.append({'family': 'ugrid', 'mesh': 'M4', 'second_mesh': 'first', 'supplied': ['edge_node']})
    specs.append({'family': 'ugrid', 'mesh': 'M1', 'supplied': ['edge_node', 'edge_face'], 'two_dim': 'nv', 'start_index': 1})
    # column-major arrays, coordinates listing their dimensions in different orders, ragged node masks
    specs.append({'family': 'shoc_standard', 'nj': 3, 'ni': 3, 'fortran': True, 'dry': 'farcorner'})
    specs.append({'family': 'cf2d', 'ny': 3, 'nx': 4, 'geometry': 'skew', 'fortran': True, 'holes': 'first'})
    specs.append({'family': 'shoc_standard', 'nj': 3, 'ni': 3, 'transposed_lon': True})
    specs.append({'family': 'shoc_standard', 'nj': 2, 'ni': 3, 'transposed_lon': True, 'geometry': 'skew'})
    specs.append({'family': 'shoc_standard', 'nj': 3, 'ni': 4, 'dry': 'corner', 'ragged': True, 'geometry': 'skew'})
    # bounds on one coordinate only; nearly uniform axes; cell edges at signed zeros
    specs.append({'family': 'cf1d', 'ny': 3, 'nx': 3, 'bounds_lat': 'gapped', 'bounds_lon': 'none'})
    specs.append({'family': 'cf1d', 'ny': 3, 'nx': 4, 'bounds_lat': 'none', 'bounds_lon': 'var', 'lon_kind': 'nonuni'})
    specs.append({'family': 'cf1d', 'ny': 3, 'nx': 4, 'lat_kind': 'nearuni', 'lon_kind': 'nearuni'})
    specs.append({'family': 'cf1d', 'ny': 4, 'nx': 3, 'lat_kind': 'nearuni-tiny', 'lon_kind': 'nearuni-tiny'})
    specs.append({'family': 'cf1d', 'ny': 3, 'nx': 3, 'lat0': -0.125, 'lon0': -0.125, 'bounds': 'var', 'signed_zero': True})
    for mesh in []:
        specs.append({'family': 'ugrid', 'mesh': mesh, 'supplied': ['edge_node', 'face_edge'],
                      'start_index': 1, 'fill': 'fillattr', 'face_coords': True})
        if not quick:
            specs.append({'family': 'ugrid', 'mesh': mesh, 'supplied': list(OPTIONAL_TABLES),
                          'transposed': True, 'coords_as': 'coord'})
    # datasets (and the convention bound to them) that have already been used, copied, pickled, saved, chunked
    specs.extend(history_specs(tier))
    # drop duplicates, keep order
    seen = set()
    unique = []
    for s in specs:
        key = repr(sorted((k, repr(v)) for k, v in s.items()))
        if key not in seen:
            seen.add(key)
            unique.append(s)
    return unique
