"""
python -m mc.run <ID> [--tier quick|thorough] [--replay file]

cwd must be /verif.  Exit 0: property held on everything explored; exit 1 + a line
``VIOLATION property=<id> replay=<path>``: violation; exit 2: the harness itself is broken.
"""
import argparse
import importlib
import os
import sys


def main(argv=None) -> int:
    parser = argparse.ArgumentParser()
    parser.add_argument('property')
    parser.add_argument('--tier', default=os.environ.get('VERIF_TIER', 'quick'),
                        choices=['quick', 'thorough'])
    parser.add_argument('--replay', default=None)
    options = parser.parse_args(argv)

    try:
        seed = int(os.environ.get('VERIF_SEED', '0'))
    except ValueError:
        seed = 0

    from . import env, runner  # noqa: F401  (env sets sys.path before anything imports emsarray)
    module = importlib.import_module(f'mc.checks.{options.property.lower()}')
    return runner.run(module, options.tier, seed, replay=options.replay)


if __name__ == '__main__':
    sys.exit(main())
