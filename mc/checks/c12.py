"""C12 -- ocean floor extraction returns the deepest valid value of every water column."""
from __future__ import annotations

import itertools
import json
import os
import subprocess
import sys
import warnings

import numpy as np
import xarray as xr

from .. import builders, env, sequences
from ..runner import LibraryRaised, Recorder, lib

PROPERTY = 'C12'
TITLE = 'Ocean floor extraction returns the deepest valid value of every water column'
RULE = (
    "One case per (convention in {CF1D, SHOC simple, SHOC standard, UGRID}, depth axis {positive up, "
    "down} x {deep-to-shallow, shallow-to-deep}, one or two depth coordinates of different lengths, chunk "
    "of sea-floor shapes).  Every static sea floor on 3 columns x 3 layers (0..3 wet layers per column: "
    "4^3 = 64; thorough also 4 columns x 4 layers: 5^4 = 625) is executed, with variables carrying the "
    "depth dimension in every position among (time, depth, grid dimensions), variables on the other grid "
    "kinds with their own floors, variables without depth, through both ocean_floor() and the accessor; "
    "the datasets with two depth coordinates are additionally run in child interpreters with "
    "PYTHONHASHSEED 0 and 1 (the implementation orders depth dimensions by hash).  Oracle: per variable, "
    "time and column the value of the physically deepest layer holding data, NaN for a dry column; depth "
    "dimension and coordinates gone; everything else identical.  Non-trivial: floors that differ between "
    "columns, two depth coordinates, depth not the first dimension."
    ' Also: every subset of layers holding data per column (8^3 patterns, gaps above data), depth coordinates given as one-shot iterators, two depth coordinates sharing one dimension.'
    " Datasets also arrive with a history: warmed convention, copy, deep copy, pickle, netCDF round trip, fully chunked (dask), and hand-built conventions for coordinates autodetection would not pick (decoy pair), after warm / pickle. Also (operation sequences, mc/sequences.py): for 8 base datasets and every sequence `first [middle] query` over 36 operations (queries, in-place edits a user makes, transforms whose result is used next; quick length 2, thorough length 3) ending in one of this property's own queries, the answer on the one used object equals the answer on a never-used rebuild. Second phase: the first case of every distinct outcome and kind (thorough: every case, for expensive checks every kind) again with debug logging enabled, under numpy.errstate(all='ignore'), and in python -O child interpreters."
)
LEVEL_TEXT = ("all 64 (625) static sea-floor shapes x orientation x order x depth-dimension position x 4 conventions x one/two "
              "depth coordinates x hash seeds, compared with a column scan for the physically deepest valid layer")
LEVEL_NOTE = ("variables sharing (depth dimension, spatial dimensions) share one static floor, as the property's quantifier says; "
              "datasets given to the accessor have a time coordinate")
ASSUMPTIONS = ["the sea floor is static over time (stated by the operation's documentation and the property)"]


def bounds(tier):
    return {'columns x layers': '3x3 (64 floors)' + (' and 4x4 (625 floors)' if tier == 'thorough' else ''),
            'hash_seeds': [0, 1]}


FAMILIES = {
    'cf1d': lambda n: {'family': 'cf1d', 'ny': 1, 'nx': n, 'bounds': 'var'},
    'shoc_simple': lambda n: {'family': 'shoc_simple', 'ny': 1, 'nx': n},
    'shoc_standard': lambda n: {'family': 'shoc_standard', 'nj': 1, 'ni': n},
    'ugrid': lambda n: {'family': 'ugrid', 'mesh': 'strip', 'nodes': [(float(i), float(j)) for j in (0, 1) for i in range(n + 1)],
                        'faces': [[i, i + 1, n + 2 + i, n + 1 + i] for i in range(n)], 'supplied': ['edge_node']},
}

CHUNK = 16


def _cases_first_call(tier):
    out = []
    sizes = [(3, 3)] + ([(4, 4)] if tier == 'thorough' else [])
    for (ncol, nlayer) in sizes:
        floors = list(itertools.product(range(nlayer + 1), repeat=ncol))
        for family in FAMILIES:
            for positive, deep_first in itertools.product(('up', 'down'), (False, True)):
                for two in (False, True):
                    if (ncol, nlayer) == (4, 4) and two:
                        continue
                    for start in range(0, len(floors), CHUNK):
                        out.append({'family': family, 'ncol': ncol, 'nlayer': nlayer, 'positive': positive,
                                    'deep_first': deep_first, 'two': two, 'floors': [list(f) for f in floors[start:start + CHUNK]]})
                if (ncol, nlayer) == (3, 3) and family in ('cf1d', 'ugrid'):
                    # two depth coordinates that share the depth dimension (layer depth given both ways)
                    out.append({'family': family, 'ncol': ncol, 'nlayer': nlayer, 'positive': positive, 'deep_first': deep_first,
                                'two': False, 'shared': True, 'floors': [list(f) for f in floors[::5]]})
    # every subset of layers holding data in every column (gaps above data, e.g. levels above a low tide): 8^3 patterns
    patterns = [list(f) for f in itertools.product(range(8), repeat=3)]
    configs = [('cf1d', 'up', True), ('ugrid', 'down', False)] if tier == 'quick' else \
        [(family, positive, deep) for family in FAMILIES for positive in ('up', 'down') for deep in (False, True)]
    for family, positive, deep_first in configs:
        for start in range(0, len(patterns), 32):
            out.append({'family': family, 'ncol': 3, 'nlayer': 3, 'positive': positive, 'deep_first': deep_first, 'two': False,
                        'masks': True, 'floors': patterns[start:start + 32]})
    floors3 = [list(f) for f in itertools.product(range(4), repeat=3)]
    # auxiliary one-dimensional coordinates along the grid dimensions
    for family in ('shoc_simple', 'shoc_standard', 'ugrid'):
        for positive, deep_first in (('up', True), ('down', False)):
            out.append({'family': family, 'ncol': 3, 'nlayer': 3, 'positive': positive, 'deep_first': deep_first, 'two': False,
                        'aux': True, 'floors': floors3[1::6] if tier == 'quick' else floors3})
    # depth coordinates with cell bounds
    for family in FAMILIES:
        for n, position in enumerate(('first', 'last')):
            out.append({'family': family, 'ncol': 3, 'nlayer': 3, 'positive': ('up', 'down')[n], 'deep_first': bool(n), 'two': False,
                        'depth_bounds': position, 'floors': floors3[2::7] if tier == 'quick' else floors3})
    # an empty regional subset (a horizontal dimension of length zero)
    for family in FAMILIES:
        for positive, deep_first in (('up', True), ('down', False)):
            out.append({'family': family, 'ncol': 3, 'nlayer': 3, 'positive': positive, 'deep_first': deep_first, 'two': False,
                        'empty_grid': True, 'floors': [[1, 2, 3], [0, 3, 3]]})
    # datasets and conventions that have been used, copied, pickled, saved or chunked before
    histories = [[op] for op in builders.HISTORY_OPS]
    if tier == 'thorough':
        histories += [list(h) for h in itertools.product(builders.HISTORY_OPS, repeat=2)]
    for family in FAMILIES:
        for n, history in enumerate(histories):
            out.append({'family': family, 'ncol': 3, 'nlayer': 3, 'positive': ('up', 'down')[n % 2], 'deep_first': bool((n // 2) % 2),
                        'two': n % 3 == 0, 'history': history, 'floors': floors3[n % 5::5] if tier == 'quick' else floors3})
    # the two-coordinate datasets again, in fresh interpreters with fixed hash seeds
    floors = [list(f) for f in itertools.product(range(4), repeat=3)]
    picked = floors[::7] if tier == 'quick' else floors
    for family in FAMILIES:
        for hashseed in (0, 1):
            out.append({'child': True, 'hashseed': hashseed, 'family': family, 'ncol': 3, 'nlayer': 3, 'positive': 'up',
                        'deep_first': True, 'two': True, 'floors': picked})
    return out


def depth_names(truth):
    return truth.depth_dim, [n for n in truth.depth_names][0]


def build_dataset(case, floor):
    """Dataset whose variables with a depth dimension are NaN below the floor.
    Returns (dataset, truth, expectations) where expectations: var -> (dims without depth, values)."""
    ncol, nlayer = case['ncol'], case['nlayer']
    spec = FAMILIES[case['family']](ncol)
    spec = {**spec, 'nk': nlayer, 'seed': case.get('seed', 0)}
    ds, truth = builders.build(spec)
    depth_dim = truth.depth_dim
    depth_name = [n for n in truth.depth_names if ds[n].dims == (depth_dim,)][0]
    # physical layer index of each stored position (0 = shallowest)
    physical = list(range(nlayer))
    if case['deep_first']:
        physical = physical[::-1]
    sign = -1.0 if case['positive'] == 'up' else 1.0
    attrs = dict(ds[depth_name].attrs)
    attrs['positive'] = case['positive']
    ds[depth_name] = ((depth_dim,), np.array([sign * (p + 0.5) for p in physical]), attrs)
    time_dim = truth.time_dim
    nt = ds.sizes[time_dim]
    expectations = {}
    new_vars = {}
    for kind, info in truth.get('data_kinds', truth.kinds).items():
        gdims = tuple(info['dims'])
        gshape = tuple(info['shape'])
        ncell = int(np.prod(gshape))
        if kind == truth.default_kind:
            wet = list(floor)
        else:
            wet = [(c * 2 + 1) % (nlayer + 1) for c in range(ncell)]
        if case.get('masks') and kind == truth.default_kind:
            # bit p of the column's number set <=> physical layer p holds data (gaps above data allowed)
            valid = [[bool((m >> p) & 1) for p in range(nlayer)] for m in floor]
        else:
            valid = [[p < w for p in range(nlayer)] for w in wet]
        deepest = [max([p for p in range(nlayer) if col[p]], default=None) for col in valid]
        base_dims = (time_dim,) + gdims
        positions = range(len(base_dims) + 1) if kind == truth.default_kind else (1,)
        for pos in positions:
            dims = base_dims[:pos] + (depth_dim,) + base_dims[pos:]
            name = f'd_{kind}_{pos}'
            # canonical (time, stored layer, cell)
            values = np.full((nt, nlayer, ncell), np.nan)
            floor_values = np.full((nt, ncell), np.nan)
            for t in range(nt):
                for k, p in enumerate(physical):
                    for c in range(ncell):
                        if valid[c][p]:
                            values[t, k, c] = 10000 * (pos + 1) + 1000 * t + 100 * p + c
                for c in range(ncell):
                    if deepest[c] is not None:
                        floor_values[t, c] = 10000 * (pos + 1) + 1000 * t + 100 * deepest[c] + c
            canonical = xr.DataArray(values.reshape((nt, nlayer) + gshape), dims=(time_dim, depth_dim) + gdims)
            new_vars[name] = canonical.transpose(*dims)
            expectations[name] = (tuple(d for d in dims if d != depth_dim),
                                  xr.DataArray(floor_values.reshape((nt,) + gshape), dims=(time_dim,) + gdims))
    shared = None
    if case.get('shared'):
        # another coordinate for the same layers with the opposite sign convention, on the same dimension
        shared = 'depth_alt'
        ds[shared] = ((depth_dim,), np.array([-sign * (p + 0.5) for p in physical]),
                      {'positive': 'down' if sign < 0 else 'up', 'standard_name': 'depth', 'axis': 'Z'})
        ds = ds.set_coords(shared)
    keep = [v for v in ds.data_vars if depth_dim not in ds[v].dims]
    ds = ds[keep + [c for c in ds.coords]].assign(new_vars)
    second = None
    if case['two']:
        # a second depth coordinate of another length, with its own variable and floor
        n2 = nlayer + 1
        second = {'dim': 'k2', 'name': 'depth2'}
        physical2 = list(range(n2))
        if not case['deep_first']:
            physical2 = physical2[::-1]
        sign2 = -sign
        ds['depth2'] = (('k2',), np.array([sign2 * (p + 0.5) for p in physical2]),
                        {'positive': 'down' if sign2 > 0 else 'up', 'standard_name': 'depth', 'axis': 'Z'})
        ds = ds.set_coords('depth2')
        gdims = tuple(truth.kinds[truth.default_kind]['dims'])
        gshape = tuple(truth.kinds[truth.default_kind]['shape'])
        ncell = int(np.prod(gshape))
        wet2 = [(floor[c] + 1 + c) % (n2 + 1) for c in range(ncell)]
        values = np.full((n2, nt, ncell), np.nan)
        floor_values = np.full((nt, ncell), np.nan)
        for t in range(nt):
            for k, p in enumerate(physical2):
                for c in range(ncell):
                    if p < wet2[c]:
                        values[k, t, c] = 90000 + 1000 * t + 100 * p + c
            for c in range(ncell):
                if wet2[c] > 0:
                    floor_values[t, c] = 90000 + 1000 * t + 100 * (wet2[c] - 1) + c
        ds['salt2'] = (('k2', time_dim) + gdims, values.reshape((n2, nt) + gshape))
        expectations['salt2'] = ((time_dim,) + gdims, xr.DataArray(floor_values.reshape((nt,) + gshape), dims=(time_dim,) + gdims))
    if case.get('depth_bounds'):
        # the depth coordinate carries CF cell bounds (layer interfaces), listed before or after the data variables
        values = ds[depth_name].values
        bounds_var = xr.DataArray(np.stack([values - 0.5, values + 0.5], axis=-1), dims=[depth_dim, 'nv_depth'])
        if case['depth_bounds'] == 'first':
            ds = xr.Dataset({'depth_bnds': bounds_var, **{n: ds[n] for n in ds.data_vars}}, coords=ds.coords, attrs=ds.attrs)
        else:
            ds['depth_bnds'] = bounds_var
        ds[depth_name].attrs['bounds'] = 'depth_bnds'
    if case.get('aux'):
        # one-dimensional auxiliary coordinates along the horizontal dimensions of a grid whose latitude / longitude are
        # two-dimensional (distances in metres along the model's own axes)
        for axis, dim in enumerate(tuple(truth.kinds[truth.default_kind]['dims'])):
            ds = ds.assign_coords({f'metres_{axis}': (dim, 250.0 * np.arange(ds.sizes[dim]))})
    if case.get('empty_grid'):
        # an empty regional subset: no cell left along the first horizontal dimension
        dim = tuple(truth.kinds[truth.default_kind]['dims'])[0]
        ds = ds.isel({dim: slice(0, 0)})
        expectations = {name: (dims, want.isel({dim: slice(0, 0)}) if dim in want.dims else want)
                        for name, (dims, want) in expectations.items()}
    if case.get('history'):
        ds = builders.apply_history(ds, truth, case['history'])
    return ds, truth, expectations, depth_name, second, shared


def check_result(rec, fp, label, ds, truth, result, expectations, reduced, case):
    """reduced: names of the depth coordinates this call was asked to reduce."""
    gone = [ds[name].dims[0] for name in reduced]
    for dim in gone:
        rec.check(dim not in result.dims, f"{fp}/depth-dimension-left", f"{label}: dimension {dim} still present", 'absent', 'present')
    for name in reduced:
        rec.check(name not in result.variables, f"{fp}/depth-coordinate-left", f"{label}: coordinate {name} still present", 'absent', 'present')
    for name, (dims, want) in expectations.items():
        if name not in result.variables:
            rec.check(False, f"{fp}/variable-lost", f"{label}: {name} missing", name, sorted(map(str, result.variables)))
            continue
        got = result[name]
        if set(got.dims) != set(dims):
            rec.check(False, f"{fp}/dims", f"{label}: dims of {name}", dims, got.dims)
            continue
        same = np.array_equal(got.transpose(*want.dims).values, want.values, equal_nan=True)
        which = 'second-coordinate' if name == 'salt2' else 'floor-value'
        rec.check(same, f"{fp}/{which}", f"{label}: {name} is not the deepest valid value of each column",
                  want.values, got.transpose(*want.dims).values)
    for name in ds.variables:
        if any(d in ds[name].dims for d in gone):
            continue
        ok = name in result.variables and result[name].identical(ds[name])
        if not ok and name in result.variables:
            ok = result[name].dims == ds[name].dims and np.array_equal(
                np.asarray(result[name].values), np.asarray(ds[name].values)) and result[name].attrs == ds[name].attrs
        rec.check(ok, f"{fp}/other-variable-changed", f"{label}: {name} (no depth dimension) changed", 'identical', 'missing or changed')
    rec.check(dict(result.attrs) == dict(ds.attrs), f"{fp}/attrs", f"{label}: global attributes", dict(ds.attrs), dict(result.attrs))


def _run_case_first_call(case):
    rec = Recorder()
    if case.get('child') and not os.environ.get('VERIF_C12_CHILD'):
        return run_child(case, rec)
    from emsarray.operations import depth
    fp = f"C12/{case['family']}"
    for floor in case['floors']:
        if len(set(floor)) > 1:
            rec.nontrivial((case.get('masks', False),) + tuple(floor))
        ds, truth, expectations, depth_name, second, shared = build_dataset(case, floor)
        snapshot = ds.copy(deep=True)
        label = f"floor={floor} positive={case['positive']} deep_first={case['deep_first']} two={case['two']}"
        convention = ds.ems
        depth_coords = [depth_name] + ([second['name']] if second else []) + ([shared] if shared else [])
        for api in ('function', 'function-iterators', 'accessor'):
            try:
                with warnings.catch_warnings():
                    warnings.simplefilter('ignore')
                    if api == 'function':
                        result = lib(depth.ocean_floor, ds, depth_coords, non_spatial_variables=[truth.time_name])
                    elif api == 'function-iterators':
                        # the documented argument type is an iterable: one-shot iterators included
                        result = lib(depth.ocean_floor, ds, (name for name in depth_coords),
                                     non_spatial_variables=iter([ds[truth.time_name]]))
                    else:
                        result = lib(convention.ocean_floor)
            except LibraryRaised as err:
                rec.check(False, f"{fp}/raised", f"{label} ({api})", 'dataset', str(err))
                continue
            if api != 'accessor':
                reduced = list(depth_coords)
            else:
                # the accessor reduces the depth coordinates the convention itself recognises
                reduced = [c.name for c in convention.depth_coordinates]
            wanted = {k: v for k, v in expectations.items() if k != 'salt2' or (second and second['name'] in reduced)}
            check_result(rec, fp, f"{label} ({api})", ds, truth, result, wanted, reduced, case)
        rec.check(ds.identical(snapshot), f"{fp}/input-modified", f"{label}: input dataset modified", 'unchanged', 'changed')
    rec.outcome([case['family'], case['positive'], case['deep_first'], case['two'], case['ncol']])
    return rec.result()


def run_child(case, rec):
    """Run the case in a fresh interpreter with a fixed hash seed and merge its verdicts."""
    child_env = dict(os.environ)
    child_env['PYTHONHASHSEED'] = str(case['hashseed'])
    child_env['VERIF_C12_CHILD'] = '1'
    child_env['PYTHONPATH'] = env.VERIF
    payload = json.dumps({k: v for k, v in case.items()})
    proc = subprocess.run([sys.executable, '-m', 'mc.checks.c12'], input=payload, capture_output=True, text=True,
                          env=child_env, cwd=env.VERIF, timeout=900)
    if proc.returncode != 0:
        raise RuntimeError(f"C12 child failed: {proc.stderr[-2000:]}")
    result = json.loads(proc.stdout.strip().splitlines()[-1])
    rec.transitions += result['transitions']
    for v in result['violations']:
        v = dict(v)
        v['fingerprint'] = v['fingerprint'] + f"/hashseed"
        rec.violations.append(v)
    rec.nontrivial(('hashseed', case['hashseed']))
    rec.outcome([case['family'], 'child', case['hashseed']])
    return rec.result()



from ..runner import coarse_environment_key as environment_key  # noqa: E402  (expensive cases: second phase on one case per kind)
ENVIRONMENTS_ON_REPRESENTATIVES_ONLY = True


def cases(tier):
    # first calls on freshly built datasets, then operation sequences on one object (mc/sequences.py)
    return _cases_first_call(tier) + sequences.cases_for(PROPERTY, tier)


def run_case(case):
    if case.get('part') == 'sequence':
        rec = Recorder()
        sequences.run_case(PROPERTY, case, rec)
        return rec.result()
    return _run_case_first_call(case)

if __name__ == '__main__':
    env.import_emsarray()
    case_in = json.loads(sys.stdin.read())
    print(json.dumps(run_case(case_in), default=repr))
