"""C04 -- point lookup returns exactly the lowest-indexed intersecting cell."""
from __future__ import annotations

import numpy as np
from shapely.geometry import Point

from .. import builders, ref, sequences
from ..runner import LibraryRaised, Recorder, lib

PROPERTY = 'C04'
TITLE = 'Point lookup returns exactly the lowest-indexed intersecting cell'
RULE = (
    "One case per dataset of the family list (all conventions, holes, skew, non-convex faces, >10 "
    "cells).  Query points are derived from the dataset itself and all are executed: every cell's "
    "interior point, every vertex, every edge midpoint, each edge midpoint pushed 1/16 to either side, "
    "hole interiors, far points, and a (4nx+1)x(4ny+1) lattice over the bounding box.  Oracle: brute "
    "force p.intersects(point) over all reference polygons, lowest index.  Non-trivial: points hit by "
    ">= 2 cells, points in holes, points just outside a cell edge that hit nothing."
    ' Also: grids of 10x20, 8x9, 6x7 cells and 42/81-face lattice meshes (the number of raw spatial-index hit lists that come back unsorted is counted), cells that overlap their neighbours, points a whole number of turns (+-360, +-720) away from a cell, and the deprecated spatial_index wrapper item by item.'
    " Datasets also arrive with a history: warmed convention, copy, deep copy, pickle, netCDF round trip, fully chunked (dask), and hand-built conventions for coordinates autodetection would not pick (decoy pair), after warm / pickle. Also (operation sequences, mc/sequences.py): for 8 base datasets and every sequence `first [middle] query` over 36 operations (queries, in-place edits a user makes, transforms whose result is used next; quick length 2, thorough length 3) ending in one of this property's own queries, the answer on the one used object equals the answer on a never-used rebuild. Second phase: the first case of every distinct outcome and kind (thorough: every case, for expensive checks every kind) again with debug logging enabled, under numpy.errstate(all='ignore'), and in python -O child interpreters."
)
LEVEL_TEXT = ('every query point of a dataset-derived set (interiors, vertices, edge midpoints, +-1/16 off every edge, hole interiors, far points, a (4nx+1)x(4ny+1) lattice) on every dataset of the family list, against brute-force intersects + lowest index')
LEVEL_NOTE = ('GEOS predicates exact on dyadic coordinates')
ASSUMPTIONS = [
    "GEOS point-in-polygon predicates are exact for dyadic coordinates",
    "CF2D datasets with derived bounds are only used without holes (DESIGN 6)",
]


def bounds(tier):
    return {'datasets': 'builders.family_specs(tier) with defined geometry', 'lattice': '(4nx+1)x(4ny+1)'}


def _cases_first_call(tier):
    out = []
    for spec in builders.family_specs(tier):
        if spec['family'] == 'cf2d' and spec.get('bounds') == 'derived' and spec.get('holes', 'none') != 'none':
            continue
        out.append(spec)
    # non-convex faces and clockwise faces explicitly, also in quick
    for mesh in ('M8', 'M9', 'M5'):
        spec = {'family': 'ugrid', 'mesh': mesh}
        if spec not in out:
            out.append(spec)
    from .c02 import extra_cases
    out += [c for c in extra_cases(tier)]
    # a plugin convention derived from a built-in one through the documented hook (_make_polygons): land cells without polygons
    out.append({'family': 'cf1d', 'ny': 3, 'nx': 4, 'bounds': 'var', 'plugin': 'holed', 'plugin_missing': [5, 6], 'explicit_names': True})
    out.append({'family': 'cf1d', 'ny': 4, 'nx': 3, 'plugin': 'holed', 'plugin_missing': [0, 4, 11], 'explicit_names': True})
    # cells that overlap their neighbours: in the overlap the lowest index must win
    out.append({'family': 'cf1d', 'ny': 3, 'nx': 4, 'bounds': 'overlap'})
    out.append({'family': 'cf1d', 'ny': 4, 'nx': 3, 'bounds': 'overlap', 'lat_kind': 'desc', 'lon_kind': 'desc'})
    # large grids: the spatial index only returns its hits out of order on grids well above its node
    # capacity (observed: never on 3x4, on about 40 % of the shared vertices of a 10x20 grid)
    out.append({'family': 'cf1d', 'ny': 10, 'nx': 20, 'bounds': 'var', 'nt': 1, 'nk': 1})
    out.append({'family': 'cf2d', 'ny': 8, 'nx': 9, 'geometry': 'skew', 'holes': 'lshape', 'nt': 1, 'nk': 1})
    out.append({'family': 'shoc_standard', 'nj': 6, 'ni': 7, 'dry': 'corner', 'nt': 1, 'nk': 1})
    nodes, faces = builders._lattice_mesh(6, 7)
    out.append({'family': 'ugrid', 'mesh': 'lattice-6x7', 'nodes': nodes, 'faces': faces, 'nt': 1, 'nk': 1})
    if tier == 'thorough':
        out.append({'family': 'cf1d', 'ny': 20, 'nx': 10, 'lat_kind': 'desc', 'nt': 1, 'nk': 1})
        out.append({'family': 'shoc_simple', 'ny': 9, 'nx': 12, 'holes': 'interior', 'nt': 1, 'nk': 1})
        nodes, faces = builders._lattice_mesh(9, 9)
        out.append({'family': 'ugrid', 'mesh': 'lattice-9x9', 'nodes': nodes, 'faces': faces, 'nt': 1, 'nk': 1, 'start_index': 1})
    return out


def query_points(truth, polys) -> list[tuple[float, float]]:
    points: dict[tuple[float, float], None] = {}

    def add(x, y):
        points.setdefault((float(x), float(y)), None)

    valid = [p for p in polys if p is not None]
    for p in valid:
        rp = p.representative_point()
        add(rp.x, rp.y)
        ring = list(p.exterior.coords)
        for (x0, y0), (x1, y1) in zip(ring[:-1], ring[1:]):
            add(x0, y0)
            mx, my = (x0 + x1) / 2, (y0 + y1) / 2
            add(mx, my)
            dx, dy = x1 - x0, y1 - y0
            length = max(abs(dx), abs(dy))
            nx_, ny_ = -dy / length / 16, dx / length / 16
            add(mx + nx_, my + ny_)
            add(mx - nx_, my - ny_)
            # far inside any sensible tolerance, still on one side of the edge
            add(mx + nx_ * 2.0 ** -27, my + ny_ * 2.0 ** -27)
            add(mx - nx_ * 2.0 ** -27, my - ny_ * 2.0 ** -27)
    for (x, y) in truth.get('hole_points', []):
        add(x, y)
    xs = [c[0] for p in valid for c in p.exterior.coords]
    ys = [c[1] for p in valid for c in p.exterior.coords]
    x0, x1, y0, y1 = min(xs), max(xs), min(ys), max(ys)
    for far in ((x0 - 100, y0), (x1 + 100, y1 + 100), (x0, y1 + 50), (1e6, -1e6)):
        add(*far)
    # a whole number of turns away from a cell interior / vertex: still outside the model
    rp = valid[0].representative_point()
    vx, vy = valid[-1].exterior.coords[0]
    for turn in (-720.0, -360.0, 360.0, 720.0):
        add(rp.x + turn, rp.y)
        add(vx + turn, vy)
        add(rp.x, rp.y + turn / 2)
    shape = truth.kinds['face']['shape']
    ny_cells, nx_cells = (shape[0], shape[1]) if len(shape) == 2 else (3, 3)
    for a in range(4 * ny_cells + 1):
        for b in range(4 * nx_cells + 1):
            add(x0 + (x1 - x0) * b / (4 * nx_cells), y0 + (y1 - y0) * a / (4 * ny_cells))
    return list(points)


def _run_case_first_call(case):
    rec = Recorder()
    ds, truth = builders.build({k: v for k, v in case.items() if k != 'io'})
    if case.get('io') == 'reopen':
        import shutil
        import tempfile
        from .. import env
        tmp = tempfile.mkdtemp(prefix='emsverif-', dir=env.scratch_root())
        try:
            ds = builders.reopen(ds, tmp).load()
        finally:
            shutil.rmtree(tmp, ignore_errors=True)
    convention = ds.ems
    fp = f"C04/{truth.family}"
    polys = ref.ref_polygons(truth)
    if any(isinstance(p, str) for p in polys):
        rec.outcome('undefined-geometry')
        return rec.result()
    face_shape = tuple(truth.kinds['face']['shape'])
    nface = len(polys)
    botz = truth.vars['botz']
    labels = ref.expected_values(botz, nface, truth.shift)
    hole_points = {tuple(p) for p in truth.get('hole_points', [])}

    outcomes = {'none': 0, 'single': 0, 'multi': 0, 'unsorted-raw-hits': 0}
    import warnings
    with warnings.catch_warnings():
        warnings.simplefilter('ignore')
        try:
            old_index = lib(lambda: convention.spatial_index)
        except LibraryRaised as err:
            old_index = None
            rec.check(False, f"{fp}/spatial-index-raised", "convention.spatial_index raised", 'index', str(err))
    tree = convention.strtree
    for (x, y) in query_points(truth, polys):
        pt = Point(x, y)
        hits = ref.brute_hits(polys, pt)
        raw = [int(h) for h in tree.query(pt, predicate='intersects')]
        if raw != sorted(raw):
            outcomes['unsorted-raw-hits'] += 1
            rec.nontrivial(('unsorted', x, y))
        if old_index is not None:
            # the deprecated index wrapper names cells by the same linear / native indexes
            items = [item for poly, item in old_index.query(pt) if poly.intersects(pt)]
            ok = sorted(int(i.linear_index) for i in items) == hits and all(
                i.polygon.equals(polys[int(i.linear_index)]) and tuple(i.index) == tuple(
                    builders.native_index(truth, 'face', ref.row_major_unravel(int(i.linear_index), face_shape)))
                for i in items if 0 <= int(i.linear_index) < nface and polys[int(i.linear_index)] is not None)
            rec.check(ok, f"{fp}/spatial-index-items", f"spatial_index items for point ({x}, {y})", hits,
                      [(int(i.linear_index), i.index) for i in items])
        if len(hits) >= 2:
            rec.nontrivial(('multi', x, y))
        elif not hits and ((x, y) in hole_points or abs(x) < 1e5):
            rec.nontrivial(('near-miss', x, y))
        try:
            item = lib(convention.get_index_for_point, pt)
        except LibraryRaised as err:
            rec.check(False, f"{fp}/lookup-raised", f"get_index_for_point({x}, {y})", hits[:1], str(err))
            continue
        if not hits:
            outcomes['none'] += 1
            rec.check(item is None, f"{fp}/miss-returned-cell", f"point ({x}, {y}) intersects no cell", None,
                      None if item is None else int(item.linear_index))
        else:
            outcomes['single' if len(hits) == 1 else 'multi'] += 1
            want = min(hits)
            if item is None:
                rec.check(False, f"{fp}/hit-returned-none", f"point ({x}, {y}) intersects cells {hits}", want, None)
                continue
            rec.check(int(item.linear_index) == want, f"{fp}/not-lowest-intersecting", f"point ({x}, {y}) hits {hits}",
                      want, int(item.linear_index))
            native = builders.native_index(truth, 'face', ref.row_major_unravel(int(item.linear_index), face_shape))
            rec.check(tuple(item.index) == tuple(native), f"{fp}/index-mismatch",
                      f"native index of linear index {int(item.linear_index)}", native, item.index)
            rec.check(item.polygon is not None and item.polygon.equals(polys[int(item.linear_index)]),
                      f"{fp}/polygon-mismatch", f"polygon reported for linear index {int(item.linear_index)}",
                      polys[int(item.linear_index)].wkt, None if item.polygon is None else item.polygon.wkt)
        # the same position with a third ordinate (a GPS fix with elevation): the horizontal answer is the same
        try:
            item3 = lib(convention.get_index_for_point, Point(x, y, 12.5))
            rec.check((item3 is None) == (item is None) and (item is None or int(item3.linear_index) == int(item.linear_index)),
                      f"{fp}/third-ordinate", f"point ({x}, {y}, 12.5)", None if item is None else int(item.linear_index),
                      None if item3 is None else int(item3.linear_index))
        except LibraryRaised as err:
            rec.check(False, f"{fp}/third-ordinate", f"get_index_for_point of a point with a third ordinate raised", 'same as without', str(err))
        # select_point agrees
        try:
            selected = lib(convention.select_point, pt)
            if not hits:
                rec.check(False, f"{fp}/select-point-miss-accepted", f"select_point({x}, {y}) outside every cell returned", 'error', 'dataset')
            else:
                got = float(selected['botz'].values)
                rec.check(got == float(labels[min(hits)]), f"{fp}/select-point-values", f"select_point({x}, {y})",
                          float(labels[min(hits)]), got)
        except LibraryRaised as err:
            rec.check(not hits, f"{fp}/select-point-raised", f"select_point({x}, {y}) hits {hits}", 'dataset', str(err))
    rec.outcome([truth.family, face_shape, outcomes])
    return rec.result()


from ..runner import coarse_environment_key as environment_key  # noqa: E402  (expensive cases: second phase on one case per kind)
ENVIRONMENTS_ON_REPRESENTATIVES_ONLY = True


def cases(tier):
    # first calls on freshly built datasets, then operation sequences on one object (mc/sequences.py)
    return _cases_first_call(tier) + sequences.cases_for(PROPERTY, tier)


def run_case(case):
    if case.get('part') == 'sequence':
        rec = Recorder()
        sequences.run_case(PROPERTY, case, rec)
        return rec.result()
    return _run_case_first_call(case)
