"""C02 -- one linear order is shared by polygons, centres, flattened data, selectors and the
spatial index; holes keep their slot."""
from __future__ import annotations

import numpy as np
from shapely.geometry import Polygon

from .. import builders, ref, sequences
from ..runner import LibraryRaised, Recorder, lib

PROPERTY = 'C02'
TITLE = 'One linear order is shared by polygons, centres, flattened data and selectors'
RULE = (
    "One case per dataset of the family list (every convention, shapes up to 3x3 plus one >10-cell "
    "instance, skewed geometry, every hole / dry pattern, every mesh).  Inside a case: every grid kind x "
    "every cell n x every variable on that kind (several dimension orders): ravel()[..., n] == value "
    "selected by the native index of n == builder label; polygon n == polygon built from the "
    "coordinates stored at native index n; centre n == stored centre / centroid; spatial-index hits "
    "== brute force.  Non-trivial: datasets with holes, non-square or skewed grids, multi-kind."
    ' Also: datasets reopened from netCDF, dask-backed variables, reversed dimension declaration, meshes with faces that have no geometry or nodes that belong to no face, and a second dataset of the same shape alive and used at the same time (nothing may leak between the two).'
    " Datasets also arrive with a history: warmed convention, copy, deep copy, pickle, netCDF round trip, fully chunked (dask), and hand-built conventions for coordinates autodetection would not pick (decoy pair), after warm / pickle. Also (operation sequences, mc/sequences.py): for 8 base datasets and every sequence `first [middle] query` over 36 operations (queries, in-place edits a user makes, transforms whose result is used next; quick length 2, thorough length 3) ending in one of this property's own queries, the answer on the one used object equals the answer on a never-used rebuild. Second phase: the first case of every distinct outcome and kind (thorough: every case, for expensive checks every kind) again with debug logging enabled, under numpy.errstate(all='ignore'), and in python -O child interpreters."
)
LEVEL_TEXT = ('every cell of every grid kind of every dataset in the family list (all conventions, holes, skew, >10 cells): flattened value == value selected through the native index == builder label; polygon / centre / spatial-index position n belong to the cell at native index n')
LEVEL_NOTE = ('shapely/GEOS as geometry kernel; dyadic coordinates; CF2D derived bounds next to holes not judged')
ASSUMPTIONS = [
    "labels are exact in float32; coordinates are dyadic rationals so polygon equality is exact",
    "CF2D cells whose polygon is derived from neighbouring centres next to a hole are not judged (DESIGN 6)",
]


def bounds(tier):
    return {'datasets': 'builders.family_specs(tier)', 'cells': 'all', 'variables': 'all on each grid kind'}


def _cases_first_call(tier):
    out = list(builders.family_specs(tier))
    out += extra_cases(tier)
    return out


def extra_cases(tier):
    """Datasets written to netCDF and reopened (lazy arrays, on-disk encodings) and, in the thorough
    tier, larger and more elongated shapes."""
    out = []
    reopened = [
        {'family': 'cf1d', 'ny': 3, 'nx': 4, 'bounds': 'var', 'lat_kind': 'desc'},
        {'family': 'cf2d', 'ny': 3, 'nx': 4, 'geometry': 'skew', 'holes': 'interior'},
        {'family': 'shoc_simple', 'ny': 2, 'nx': 3, 'holes': 'corner'},
        {'family': 'shoc_standard', 'nj': 3, 'ni': 4, 'dry': 'corner'},
        {'family': 'ugrid', 'mesh': 'M7', 'supplied': ['edge_node', 'face_edge'], 'start_index': 1, 'fill': 'fillattr'},
        {'family': 'ugrid', 'mesh': 'M4', 'supplied': ['edge_node'], 'fill': 'nan', 'face_coords': True},
    ]
    out += [{'family': 'ugrid', 'mesh': 'M7', 'bowtie': 5}, {'family': 'ugrid', 'mesh': 'M4', 'bowtie': 0, 'start_index': 1, 'fill': 'fillattr'},
            {'family': 'ugrid', 'mesh': 'M8', 'bowtie': 1, 'face_coords': True}, {'family': 'ugrid', 'mesh': 'M10'},
            {'family': 'ugrid', 'mesh': 'M4', 'start_index': 1, 'fill': 'fillattr', 'fill_value': 0},
            {'family': 'cf2d', 'ny': 3, 'nx': 3, 'geometry': 'skew', 'holes': 'corner', 'bowtie': [1, 1]}]
    out += [{**spec, 'io': 'reopen'} for spec in reopened]
    out += [{**spec, 'io': 'dask'} for spec in reopened[:4]]
    if tier == 'thorough':
        for (a, b) in ((5, 5), (2, 6), (6, 2), (1, 7), (7, 1)):
            out.append({'family': 'cf1d', 'ny': a, 'nx': b, 'bounds': 'var', 'lon_kind': 'desc'})
            out.append({'family': 'cf2d', 'ny': a, 'nx': b, 'geometry': 'skew', 'holes': 'lshape' if a * b > 3 else 'none'})
            out.append({'family': 'shoc_standard', 'nj': a, 'ni': b, 'geometry': 'skew', 'dry': 'corner'})
            out.append({'family': 'shoc_simple', 'ny': a, 'nx': b, 'holes': 'first', 'io': 'reopen'})
    return out


def _run_case_first_call(case):
    rec = Recorder()
    ds, truth = builders.build({k: v for k, v in case.items() if k != 'io'})
    if case.get('io') == 'reopen':
        import tempfile
        from .. import env
        tmp = tempfile.mkdtemp(prefix='emsverif-', dir=env.scratch_root())
        try:
            ds = builders.reopen(ds, tmp).load()
        finally:
            import shutil
            shutil.rmtree(tmp, ignore_errors=True)
        rec.nontrivial('reopened')
    elif case.get('io') == 'dask':
        ds = ds.chunk({d: 1 for d in (truth.time_dim,)})     # lazily evaluated (dask-backed) data variables
        rec.nontrivial('dask')
    # A second dataset of the same family and shape but other coordinates and labels is alive and fully
    # used at the same time: nothing computed for one may leak into the other (shared caches, class state).
    decoy_spec = {k: v for k, v in case.items() if k != 'io'}
    decoy_spec.update({'seed': case.get('seed', 0) + 2, 'lon0': case.get('lon0', 0.0 if case['family'] == 'ugrid' else 10.0) + 3.0,
                       'lat0': case.get('lat0', 0.0 if case['family'] == 'ugrid' else -2.0) - 1.0})
    decoy, decoy_truth = builders.build(decoy_spec)
    try:
        decoy_convention = decoy.ems
        touched = [decoy_convention.polygons, decoy_convention.face_centres, decoy_convention.mask, decoy_convention.strtree,
                   decoy_convention.grid_size]
        if decoy_truth.defined:
            touched.append(decoy_convention.bounds)
            touched.append(decoy_convention.geometry)
    except Exception:  # noqa: BLE001   (the decoy's own defects are reported when it is the subject of a case)
        decoy_convention = None
    try:
        convention = lib(lambda: ds.ems)
    except LibraryRaised as err:
        rec.check(False, f"C02/{truth.family}/accessor-raised", "dataset.ems raised", truth.convention, str(err))
        return rec.result()
    family = truth.family
    fp = f"C02/{family}"
    shift = truth.shift
    data_kinds = truth.get('data_kinds', truth.kinds)

    holes = [n for n, p in enumerate(truth.polygons) if p is None]
    if holes and holes[0] < len(truth.polygons) - 1:
        rec.nontrivial('hole-before-last')
    face_shape = truth.kinds['face']['shape']
    if len(face_shape) == 2 and face_shape[0] != face_shape[1]:
        rec.nontrivial('nonsquare')
    if case.get('geometry') == 'skew':
        rec.nontrivial('skew')
    if len(truth.kinds) > 1:
        rec.nontrivial('multi-kind')

    # ---- data: flattened variable, selector, select_index
    for kind, info in data_kinds.items():
        shape = tuple(info['shape'])
        size = int(np.prod(shape))
        kind_obj = builders.grid_kind_object(truth, kind)
        natives = []
        for n in range(size):
            try:
                natives.append(lib(convention.wind_index, n, grid_kind=kind_obj))
            except LibraryRaised as err:
                rec.check(False, f"{fp}/{kind}/wind-raised", f"wind_index({n})", 'index', str(err))
                return rec.result()
        variables = [vt for vt in truth.vars.values() if vt['kind'] == kind]
        for vt in variables:
            name = vt['name']
            expected = ref.expected_values(vt, size, shift)
            try:
                flat = lib(convention.ravel, ds[name])
            except LibraryRaised as err:
                rec.check(False, f"{fp}/{kind}/ravel-raised", f"ravel({name})", 'flattened array', str(err))
                continue
            ok_dims = tuple(flat.dims[:-1]) == tuple(vt['extras'])
            rec.check(ok_dims, f"{fp}/{kind}/ravel-dims", f"ravel({name}).dims", vt['extras'], flat.dims)
            if ok_dims:
                rec.check(ref.same_values(flat.values, expected), f"{fp}/{kind}/ravel-order",
                          f"ravel({name}) is not in linear-index order", expected[..., :6], flat.values[..., :6])
            for n in range(size):
                try:
                    selector = lib(convention.selector_for_index, natives[n])
                    picked = lib(lambda: ds[name].isel(selector))
                except LibraryRaised as err:
                    rec.check(False, f"{fp}/{kind}/selector-raised", f"selector_for_index({natives[n]})", 'selector', str(err))
                    break
                want = expected[..., n]
                got = picked.transpose(*vt['extras']).values if vt['extras'] else picked.values
                if not rec.check(ref.same_values(got, want), f"{fp}/{kind}/selector-vs-linear",
                                 f"{name}: selecting native index of n={n} != element n of the flattened variable",
                                 want, got):
                    break
        # select_index returns exactly the variables of this grid, at this cell
        for n in sorted({0, size // 2, size - 1}):
            try:
                point_ds = lib(convention.select_index, natives[n])
            except LibraryRaised as err:
                rec.check(False, f"{fp}/{kind}/select-index-raised", f"select_index({natives[n]})", 'dataset', str(err))
                continue
            for vt in variables:
                name = vt['name']
                if name not in point_ds:
                    rec.check(False, f"{fp}/{kind}/select-index-missing", f"{name} missing from select_index", name, list(point_ds.data_vars))
                    continue
                got = point_ds[name].transpose(*vt['extras']).values if vt['extras'] else point_ds[name].values
                rec.check(ref.same_values(got, ref.expected_values(vt, size, shift)[..., n]),
                          f"{fp}/{kind}/select-index-values", f"select_index({natives[n]})[{name}]",
                          ref.expected_values(vt, size, shift)[..., n], got)

    # ---- geometry on the face grid
    try:
        polygons = lib(lambda: convention.polygons)
        centres = lib(lambda: convention.face_centres)
        mask = lib(lambda: convention.mask)
        tree = lib(lambda: convention.strtree)
    except LibraryRaised as err:
        rec.check(False, f"{fp}/geometry-raised", "polygons/face_centres/mask/strtree raised", 'geometry', str(err))
        return rec.result()
    nface = int(np.prod(face_shape))
    face_size = {ref.kind_name(k): v for k, v in convention.grid_size.items()}['face']
    rec.check(len(polygons) == nface == face_size and len(centres) == nface and len(mask) == nface,
              f"{fp}/lengths", "len(polygons), len(face_centres), len(mask), grid_size[face]",
              nface, [len(polygons), len(centres), len(mask), face_size])
    if len(polygons) != nface or len(centres) != nface:
        return rec.result()
    judged = truth.get('judged', [True] * nface)
    ref_polys = []
    for n in range(nface):
        coords = truth.polygons[n]
        if isinstance(coords, str) or not judged[n]:
            ref_polys.append('undefined')
            continue
        ref_polys.append(None if coords is None else Polygon(coords))
        rec.check(ref.polygon_matches(polygons[n], coords, truth.polygon_compare),
                  f"{fp}/polygon-not-own-cell", f"polygon {n} is not the cell at native index {ref.row_major_unravel(n, face_shape)}",
                  coords, None if polygons[n] is None else ref.ring_of(polygons[n]))
        rec.check(bool(mask[n]) == (coords is not None), f"{fp}/mask", f"mask[{n}]", coords is not None, bool(mask[n]))
        # centre
        got = tuple(float(v) for v in centres[n])
        if truth.centre_mode == 'stored':
            want = truth.centres[n]
            if want is None:
                rec.check(all(np.isnan(got)), f"{fp}/centre-of-missing-cell", f"face_centres[{n}] of a cell without centre", 'nan', got)
            else:
                rec.check(got == want, f"{fp}/centre-not-own-cell", f"face_centres[{n}]", want, got)
        else:
            if coords is None:
                rec.check(all(np.isnan(got)), f"{fp}/centre-of-missing-cell", f"face_centres[{n}] of a hole", 'nan', got)
            else:
                c = Polygon(coords).centroid
                rec.check(abs(got[0] - c.x) < 1e-9 and abs(got[1] - c.y) < 1e-9, f"{fp}/centre-not-own-cell",
                          f"face_centres[{n}]", (c.x, c.y), got)

    # ---- spatial index positions are linear indexes
    if 'undefined' not in ref_polys:
        for n, poly in enumerate(ref_polys):
            if poly is None:
                continue
            pt = poly.representative_point()
            try:
                hits = sorted(int(h) for h in lib(tree.query, pt, predicate='intersects'))
            except LibraryRaised as err:
                rec.check(False, f"{fp}/strtree-raised", "strtree.query raised", 'hits', str(err))
                break
            want = ref.brute_hits(ref_polys, pt)
            rec.check(hits == want and n in hits, f"{fp}/strtree-positions",
                      f"spatial index hits for a point inside cell {n}", want, hits)

    # the other dataset, used before this one, still answers for itself
    if decoy_convention is not None and decoy_truth.defined:
        decoy_polys = decoy_convention.polygons
        djudged = decoy_truth.get('judged', [True] * len(decoy_truth.polygons))
        ok = len(decoy_polys) == len(decoy_truth.polygons) and all(
            ref.polygon_matches(decoy_polys[n], decoy_truth.polygons[n], decoy_truth.polygon_compare)
            for n in range(len(decoy_polys)) if djudged[n] and not isinstance(decoy_truth.polygons[n], str))
        rec.check(ok, f"{fp}/state-shared-between-datasets", "polygons of a second dataset changed after this dataset was used",
                  'its own polygons', 'different')
        try:
            botz = decoy_truth.vars['botz']
            got = lib(decoy_convention.ravel, decoy['botz']).values
            rec.check(ref.same_values(got, ref.expected_values(botz, len(decoy_truth.polygons), decoy_truth.shift)),
                      f"{fp}/state-shared-between-datasets", "flattened data of a second dataset", 'its own labels', got[:6])
        except LibraryRaised as err:
            rec.check(False, f"{fp}/state-shared-between-datasets", "ravel on the second dataset raised", 'values', str(err))
    rec.outcome([family, [tuple(v['shape']) for v in truth.kinds.values()], len(holes)])
    return rec.result()


def cases(tier):
    # first calls on freshly built datasets, then operation sequences on one object (mc/sequences.py)
    return _cases_first_call(tier) + sequences.cases_for(PROPERTY, tier)


def run_case(case):
    if case.get('part') == 'sequence':
        rec = Recorder()
        sequences.run_case(PROPERTY, case, rec)
        return rec.result()
    return _run_case_first_call(case)
