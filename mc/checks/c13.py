"""C13 -- depth normalisation reorients coordinates and data together, idempotently."""
from __future__ import annotations

import itertools
import warnings

import numpy as np
import xarray as xr

from .. import builders, sequences
from ..runner import LibraryRaised, Recorder, lib

PROPERTY = 'C13'
TITLE = 'Depth normalisation reorients coordinates and data together, idempotently'
RULE = (
    "One case per depth-coordinate configuration: positive {up, down, attribute absent with unambiguous "
    "values} x value offsets {0, +-10, +-1: heights above the sea bed, datum above the surface / inside the "
    "water column, so that the sign of the values is not what the attribute suggests} x stored order {deep-to-shallow, shallow-to-deep} x {with, without bounds} x {dimension "
    "coordinate, separately named coordinate} x 2..4 levels x {one, two depth coordinates on different dimensions, two coordinates sharing one dimension} x {function, "
    "accessor on CF1D / SHOC standard datasets}.  Inside: all 9 combinations of positive_down and "
    "deep_to_shallow in {None, True, False}, then every second application (9 x 9 histories of length 2).  "
    "Every data value carries the physical layer it belongs to.  Oracle: attribute and sign agree with the "
    "request or are untouched, order as requested or untouched, bounds transformed with their level, "
    "every data value still at its physical depth, second identical application changes nothing, the "
    "state after two applications only depends on the last non-None request per aspect, input dataset "
    "unmodified.  Non-trivial: calls that flip sign and order together; attribute-absent coordinates."
    ' Also: arguments given as tuple / generator / iterator / map / data arrays, numpy-array valued attributes on the coordinates.'
    " Also (operation sequences, mc/sequences.py): for 8 base datasets and every sequence `first [middle] query` over 36 operations (queries, in-place edits a user makes, transforms whose result is used next; quick length 2, thorough length 3) ending in one of this property's own queries, the answer on the one used object equals the answer on a never-used rebuild. Second phase: the first case of every distinct outcome and kind (thorough: every case, for expensive checks every kind) again with debug logging enabled, under numpy.errstate(all='ignore'), and in python -O child interpreters."
)
LEVEL_TEXT = ("every depth-coordinate variant of the stated product x all 9 option pairs x all 81 two-step histories, with "
              "physical-layer labels as oracle for data, coordinate, bounds, purity and idempotence")
LEVEL_NOTE = "monotonic depth coordinates with >= 2 levels, at most two depth coordinates per dataset"
ASSUMPTIONS = ["depth coordinates are monotonic with >= 2 levels (the property's quantifier)"]

OPTIONS = [None, True, False]


def bounds(tier):
    return {'levels': [2, 3, 4], 'option_pairs': 9, 'history_length': 2}


def _cases_first_call(tier):
    out = []
    for positive, deep_first, with_bounds, separate, levels in itertools.product(
            ('down', 'up', None), (False, True), (False, True), (False, True), (2, 3, 4)):
        if tier == 'quick' and levels == 4:
            continue
        out.append({'kind': 'function', 'positive': positive, 'deep_first': deep_first, 'bounds': with_bounds,
                    'separate': separate, 'levels': levels, 'second': False})
        if levels == 3:
            out.append({'kind': 'function', 'positive': positive, 'deep_first': deep_first, 'bounds': with_bounds,
                        'separate': separate, 'levels': levels, 'second': True})
        if with_bounds and levels == 3:
            out.append({'kind': 'function', 'positive': positive, 'deep_first': deep_first, 'bounds': True, 'separate': separate,
                        'levels': levels, 'second': False, 'bounds_as_coordinate': True})
        if positive is not None and levels == 3:
            for spelling in ('capitalize', 'upper'):
                out.append({'kind': 'function', 'positive': positive, 'deep_first': deep_first, 'bounds': with_bounds,
                            'separate': separate, 'levels': levels, 'second': False, 'spelling': spelling})
        if positive is not None and levels == 3 and separate:
            out.append({'kind': 'function', 'positive': positive, 'deep_first': deep_first, 'bounds': with_bounds,
                        'separate': separate, 'levels': levels, 'second': 'shared'})
        if positive is not None and levels in (2, 3):
            # values whose sign is not what the attribute suggests: a height above the sea bed (+10),
            # depths below a datum above the surface (-10), a datum inside the water column (-/+1)
            for offset in ((10.0, -10.0, 1.0, -1.0) if tier == 'thorough' or separate == with_bounds else (10.0, -1.0)):
                out.append({'kind': 'function', 'positive': positive, 'deep_first': deep_first, 'bounds': with_bounds,
                            'separate': separate, 'levels': levels, 'second': False, 'offset': offset})
    for spec in ({'family': 'cf1d', 'ny': 2, 'nx': 2}, {'family': 'shoc_standard', 'nj': 2, 'ni': 2},
                 {'family': 'ugrid', 'mesh': 'M1'}, {'family': 'shoc_simple', 'ny': 2, 'nx': 2}):
        out.append({'kind': 'accessor', 'spec': spec})
    return out


def layer_value(p, sign, offset):
    return sign * (p + 0.5) + offset


def make_coordinate(name, dim, levels, positive, deep_first, with_bounds, offset=0.0):
    """Returns (coordinate, bounds or None, physical layer index of each stored position).
    Layer p (0 = shallowest) sits at sign * (p + 0.5) + offset: with an offset the values need not have
    the sign the attribute suggests (a height above the sea bed, a datum inside the water column)."""
    physical = list(range(levels))                    # 0 = shallowest
    if deep_first:
        physical = physical[::-1]
    sign = -1.0 if positive == 'up' else 1.0          # attribute absent: positive values, i.e. 'down'
    values = np.array([layer_value(p, sign, offset) for p in physical])
    attrs = {'long_name': 'depth', 'standard_name': 'depth',
             # numeric attributes arrive from netCDF files as numpy arrays / scalars
             'valid_range': np.array([-100.0, 100.0]), 'actual_range': np.array([float(values.min()), float(values.max())]),
             'valid_max': np.float64(100.0)}
    if positive is not None:
        attrs['positive'] = positive
    bounds_var = None
    if with_bounds:
        attrs['bounds'] = f'{name}_bnds'
        bounds_var = xr.DataArray(np.array([[sign * p + offset, sign * (p + 1) + offset] for p in physical]), dims=[dim, 'nv'])
    return xr.DataArray(values, dims=[dim], name=name, attrs=attrs), bounds_var, physical


def make_dataset(case):
    levels = case['levels']
    name, dim = ('zc', 'k') if case['separate'] else ('depth', 'depth')
    offset = case.get('offset', 0.0)
    coord, bnds, physical = make_coordinate(name, dim, levels, case['positive'], case['deep_first'], case['bounds'], offset)
    data = np.array([[[1000 * t + 100 * p + x for x in range(2)] for p in physical] for t in range(2)], dtype='float64')
    variables = {
        'temp': xr.DataArray(data, dims=['time', dim, 'x'], attrs={'units': 'C'}),
        'flip': xr.DataArray(np.moveaxis(data, 1, 2).copy(), dims=['time', 'x', dim]),
        'other': xr.DataArray(np.arange(2.0), dims=['x'], attrs={'note': 'unrelated'}),
        name: coord,
    }
    if bnds is not None:
        variables[f'{name}_bnds'] = bnds
    info = {name: {'dim': dim, 'levels': levels, 'positive': case['positive'], 'bounds': f'{name}_bnds' if bnds is not None else None,
                   'data': [('temp', 1), ('flip', 2)], 'sign': -1.0 if case['positive'] == 'up' else 1.0, 'offset': offset}}
    if case['second'] == 'shared':
        # a second depth coordinate on the *same* dimension with the opposite sign convention
        other = 'up' if case['positive'] != 'up' else 'down'
        coord2, _, _ = make_coordinate('depth_alt', dim, levels, other, case['deep_first'], False)
        variables['depth_alt'] = coord2
        info['depth_alt'] = {'dim': dim, 'levels': levels, 'positive': other, 'bounds': None, 'data': [('temp', 1), ('flip', 2)],
                             'sign': -1.0 if other == 'up' else 1.0, 'offset': 0.0}
    elif case['second']:
        coord2, bnds2, physical2 = make_coordinate('zgrid', 'kg', levels + 1, 'up' if case['positive'] != 'up' else 'down',
                                                   not case['deep_first'], True)
        variables['zgrid'] = coord2
        variables['zgrid_bnds'] = bnds2
        variables['w'] = xr.DataArray(np.array([[100 * p + x for x in range(2)] for p in physical2], dtype='float64'), dims=['kg', 'x'])
        info['zgrid'] = {'dim': 'kg', 'levels': levels + 1, 'positive': coord2.attrs['positive'], 'bounds': 'zgrid_bnds',
                         'data': [('w', 0)], 'sign': -1.0 if coord2.attrs['positive'] == 'up' else 1.0, 'offset': 0.0}
    ds = xr.Dataset(variables).set_coords([n for n in info])
    if case.get('spelling'):
        # CF: the value of `positive` is case-insensitive ("Down", "UP")
        for n in info:
            if 'positive' in ds[n].attrs:
                ds[n].attrs['positive'] = getattr(ds[n].attrs['positive'], case['spelling'])()
    if case.get('bounds_as_coordinate'):
        ds = ds.set_coords([meta['bounds'] for meta in info.values() if meta['bounds']])
    return ds, info


def layers_of(ds, meta):
    """Physical layer stored at each position of the depth dimension, read from the data labels."""
    var, _ = meta['data'][0]
    values = np.moveaxis(ds[var].values, list(ds[var].dims).index(meta['dim']), 0)
    layers = []
    for k in range(values.shape[0]):
        found = set(((values[k] // 100) % 10).astype(int).ravel().tolist())
        layers.append(found.pop() if len(found) == 1 else None)
    return layers


def observe(ds, info):
    """name -> dict(positive attr, orientation of the values, order)."""
    out = {}
    for name, meta in info.items():
        layers = layers_of(ds, meta)
        values = ds[name].values
        out[name] = {'attr': ds[name].attrs.get('positive'), 'layers': layers, 'values': [float(v) for v in values]}
    return out


def check_state(rec, fp, label, ds, info, expected):
    """expected: name -> (attr, flipped relative to the original values, deep_first)."""
    state = observe(ds, info)
    for name, meta in info.items():
        got = state[name]
        want_attr, flipped, want_deep = expected[name]
        levels = meta['levels']
        rec.check(got['attr'] == want_attr, f"{fp}/attribute", f"{label}: positive attribute of {name}", want_attr, got['attr'])
        layers = got['layers']
        if not rec.check(None not in layers and sorted(layers) == list(range(levels)), f"{fp}/data-detached",
                         f"{label}: the data along {meta['dim']} is no longer one physical layer per level", list(range(levels)), layers):
            continue
        factor = -1.0 if flipped else 1.0
        want_values = [factor * layer_value(p, meta['sign'], meta['offset']) for p in layers]
        rec.check(got['values'] == want_values, f"{fp}/sign", f"{label}: values of {name} are not attached to the layers their data belongs to "
                  f"({'negated' if flipped else 'unchanged'} originals expected)", want_values, got['values'])
        want_order = list(range(levels))[::-1] if want_deep else list(range(levels))
        rec.check(layers == want_order, f"{fp}/order", f"{label}: ordering of the layers along {meta['dim']}",
                  'deep first' if want_deep else 'shallow first', layers)
        if meta['bounds']:
            b = ds[meta['bounds']].values
            want_b = [[factor * (meta['sign'] * p + meta['offset']), factor * (meta['sign'] * (p + 1) + meta['offset'])] for p in layers]
            ok = b.shape == (levels, 2) and all(sorted(map(float, b[k])) == sorted(want_b[k]) for k in range(levels))
            rec.check(ok, f"{fp}/bounds", f"{label}: bounds of {name} did not move with their levels", want_b, b)
        for var, axis in meta['data']:
            values = np.moveaxis(ds[var].values, list(ds[var].dims).index(meta['dim']), 0)
            ok = all(np.all(((values[k] // 100) % 10) == layers[k]) for k in range(levels))
            rec.check(ok, f"{fp}/data-detached", f"{label}: values of {var} are no longer at their physical depth",
                      layers, [sorted(set(((values[k] // 100) % 10).ravel().tolist())) for k in range(levels)])
    rec.check('other' not in ds or (ds['other'].values == np.arange(2.0)).all() and ds['other'].attrs == {'note': 'unrelated'},
              f"{fp}/unrelated-changed", f"{label}: unrelated variable changed", 'unchanged', 'changed')


def next_expected(current, positive_down, deep_to_shallow, orientation):
    """current: name -> (attr, flipped, deep_first); orientation: name -> is the *current* data positive down."""
    out = {}
    for name, (attr, flipped, deep) in current.items():
        if positive_down is not None:
            attr = 'down' if positive_down else 'up'
            if orientation[name] != positive_down:
                flipped = not flipped
        if deep_to_shallow is not None:
            deep = deep_to_shallow
        out[name] = (attr, flipped, deep)
    return out


def orientation_of(info, state):
    """Is the data of each coordinate currently positive-down (original orientation xor flipped)."""
    return {name: (info[name]['sign'] > 0) != state[name][1] for name in info}


def _run_case_first_call(case):
    rec = Recorder()
    from emsarray.operations import depth
    if case['kind'] == 'accessor':
        return run_accessor(case, rec)
    fp = "C13/function"
    ds, info = make_dataset(case)
    names = list(info)
    initial = {n: (ds[n].attrs.get('positive'), False, layers_of(ds, info[n])[0] != 0) for n in info}
    snapshot = ds.copy(deep=True)

    forms = {
        'list': lambda: list(names), 'tuple': lambda: tuple(names), 'generator': lambda: (n for n in names),
        'iterator': lambda: iter(names), 'map': lambda: map(str, names), 'arrays': lambda: [ds[n] for n in names],
    }

    def normalise(dataset, p, d, form='list'):
        with warnings.catch_warnings():
            warnings.simplefilter('ignore')
            coordinates = forms[form]() if form != 'arrays' else [dataset[n] for n in names]
            return lib(depth.normalize_depth_variables, dataset, coordinates, positive_down=p, deep_to_shallow=d)

    for p1, d1 in itertools.product(OPTIONS, OPTIONS):
        label1 = f"normalize(positive_down={p1}, deep_to_shallow={d1})"
        try:
            once = normalise(ds, p1, d1)
        except LibraryRaised as err:
            rec.check(False, f"{fp}/raised", label1, 'dataset', str(err))
            continue
        expected1 = next_expected(initial, p1, d1, orientation_of(info, initial))
        flips = sum(1 for n in names if expected1[n][1] != initial[n][1]) and sum(1 for n in names if expected1[n][2] != initial[n][2])
        if flips or case['positive'] is None or case.get('offset'):
            rec.nontrivial((p1, d1))
        check_state(rec, fp, label1, once, info, expected1)
        rec.check(ds.identical(snapshot), f"{fp}/input-modified", f"{label1}: the input dataset was modified", 'unchanged', 'changed')
        # flags computed with numpy (numpy.bool_) or given as 0 / 1 mean the same as True / False
        for convert, kind_name in ((np.bool_, 'numpy.bool_'), (int, 'int')):
            if p1 is None and d1 is None:
                continue
            try:
                with warnings.catch_warnings():
                    warnings.simplefilter('ignore')
                    other = lib(depth.normalize_depth_variables, ds, list(names),
                                positive_down=None if p1 is None else convert(p1), deep_to_shallow=None if d1 is None else convert(d1))
                rec.check(other.identical(once), f"{fp}/option-type", f"{label1}: options given as {kind_name} give another result than as bool",
                          'identical', 'different')
            except LibraryRaised as err:
                rec.check(False, f"{fp}/option-type", f"{label1}: options given as {kind_name} raised", 'dataset', str(err))
        # the documented argument type is "iterable of names or data arrays": every form gives the same result
        for form in ('tuple', 'generator', 'iterator', 'map', 'arrays'):
            try:
                other = normalise(ds, p1, d1, form)
                rec.check(other.identical(once), f"{fp}/argument-form", f"{label1}: depth coordinates given as a {form} give another result than as a list",
                          'identical', 'different')
            except LibraryRaised as err:
                rec.check(False, f"{fp}/argument-form", f"{label1}: depth coordinates given as a {form} raised", 'dataset', str(err))
        for p2, d2 in itertools.product(OPTIONS, OPTIONS):
            label2 = f"{label1} then normalize({p2}, {d2})"
            try:
                twice = normalise(once, p2, d2)
            except LibraryRaised as err:
                rec.check(False, f"{fp}/raised", label2, 'dataset', str(err))
                continue
            check_state(rec, fp, label2, twice, info, next_expected(expected1, p2, d2, orientation_of(info, expected1)))
            if (p2, d2) == (p1, d1):
                rec.check(twice.identical(once), f"{fp}/not-idempotent", f"{label2}: normalising a normalised dataset changed it", 'identical', 'different')
    rec.outcome([case['positive'], case['deep_first'], case['bounds'], case['separate'], case['levels'], case['second'], case.get('offset', 0.0)])
    return rec.result()


def run_accessor(case, rec):
    """The accessor alias passes the convention's own depth coordinates."""
    ds, truth = builders.build(case['spec'])
    fp = f"C13/accessor/{truth.family}"
    convention = ds.ems
    names = [c.name for c in convention.depth_coordinates]
    rec.check(sorted(names) == sorted(truth.depth_names), f"{fp}/depth-coordinates", "depth coordinates found", truth.depth_names, names)
    snapshot = ds.copy(deep=True)
    for p, d in itertools.product(OPTIONS, OPTIONS):
        label = f"ems.normalize_depth_variables({p}, {d})"
        try:
            with warnings.catch_warnings():
                warnings.simplefilter('ignore')
                out = lib(convention.normalize_depth_variables, positive_down=p, deep_to_shallow=d)
                again = lib(out.ems.normalize_depth_variables, positive_down=p, deep_to_shallow=d)
        except LibraryRaised as err:
            rec.check(False, f"{fp}/raised", label, 'dataset', str(err))
            continue
        rec.nontrivial((p, d))
        for name in names:
            values = out[name].values
            before = ds[name].values
            if p is not None:
                rec.check(out[name].attrs.get('positive') == ('down' if p else 'up') and (np.all(values >= 0) if p else np.all(values <= 0)),
                          f"{fp}/sign", f"{label}: {name}", 'down' if p else 'up', [out[name].attrs.get('positive'), list(values)])
            else:
                rec.check(sorted(map(float, values)) == sorted(map(float, before)), f"{fp}/sign", f"{label}: {name} values changed", list(before), list(values))
            if d is not None:
                depth_values = np.abs(values)
                rec.check(bool(np.all(np.diff(depth_values) < 0) if d else np.all(np.diff(depth_values) > 0)), f"{fp}/order",
                          f"{label}: order of {name}", 'deep first' if d else 'shallow first', list(values))
        # data moved with the coordinate: temp labels carry the stored layer index
        vt = truth.vars['temp']
        dim = truth.depth_dim
        name = [n for n in names if ds[n].dims == (dim,)][0]
        before_depth = {int(k): abs(float(ds[name].values[k])) for k in range(ds.sizes[dim])}
        temp = out['temp']
        for k in range(out.sizes[dim]):
            layer_values = temp.isel({dim: k}).values
            stored_layers = set(((layer_values.astype('int64') - vt['base'] - truth.shift) // 100 % ds.sizes[dim]).ravel().tolist())
            want = [s for s, dep in before_depth.items() if dep == abs(float(out[name].values[k]))]
            rec.check(stored_layers == set(want), f"{fp}/data-detached", f"{label}: temp at output layer {k}", want, sorted(stored_layers))
        rec.check(again.identical(out), f"{fp}/not-idempotent", f"{label} twice", 'identical', 'different')
        rec.check(ds.identical(snapshot), f"{fp}/input-modified", f"{label}: input modified", 'unchanged', 'changed')
    rec.outcome([truth.family, 'accessor'])
    return rec.result()


def cases(tier):
    # first calls on freshly built datasets, then operation sequences on one object (mc/sequences.py)
    return _cases_first_call(tier) + sequences.cases_for(PROPERTY, tier)


def run_case(case):
    if case.get('part') == 'sequence':
        rec = Recorder()
        sequences.run_case(PROPERTY, case, rec)
        return rec.result()
    return _run_case_first_call(case)
