"""C14 -- triangulation exactly partitions every cell polygon."""
from __future__ import annotations

import itertools
from fractions import Fraction

import numpy as np
import shapely
from shapely.geometry import Polygon

from .. import builders, sequences
from ..runner import LibraryRaised, Recorder, lib

PROPERTY = 'C14'
TITLE = 'Triangulation exactly partitions every cell polygon'
RULE = (
    "Every simple polygon with 3..6 vertices on the 3x3 integer lattice (quick) / 3..7 vertices on the "
    "4x3 lattice plus every rotation of the start vertex for <= 6 vertices (thorough), both windings, "
    "enumerated completely (all vertex sequences with the lowest lattice point first, kept iff GEOS says "
    "the ring is a valid polygon) and packed 48 per UGRID dataset; plus every grid family with holes and "
    "the library meshes.  Oracle in exact rational arithmetic: n-2 triangles per n-sided cell, triangle "
    "vertices are cell vertices, triangle covered by the cell, areas sum to the cell area, holes produce "
    "nothing, vertex indexes valid, vertex list free of duplicates.  Non-trivial: polygons with a reflex "
    "or collinear vertex."
    ' Also: the same polygons at cell sizes 2^-17 and 2^12, grids with concave cells after cells without geometry, mostly-empty grids with more cells than vertices (24x24, thorough 260x255).'
    " Datasets also arrive with a history: warmed convention, copy, deep copy, pickle, netCDF round trip, fully chunked (dask), and hand-built conventions for coordinates autodetection would not pick (decoy pair), after warm / pickle. Also (operation sequences, mc/sequences.py): for 8 base datasets and every sequence `first [middle] query` over 36 operations (queries, in-place edits a user makes, transforms whose result is used next; quick length 2, thorough length 3) ending in one of this property's own queries, the answer on the one used object equals the answer on a never-used rebuild. Second phase: the first case of every distinct outcome and kind (thorough: every case, for expensive checks every kind) again with debug logging enabled, under numpy.errstate(all='ignore'), and in python -O child interpreters."
)
LEVEL_TEXT = ("all simple lattice polygons up to the stated vertex count (convex, reflex, collinear, both windings, "
              "every start vertex) and every grid family with holes: exact area partition, n-2 triangles, containment")
LEVEL_NOTE = ("GEOS validity/covers predicates on integer coordinates; polygons with more vertices or off-lattice "
              "shapes are outside the bound")
ASSUMPTIONS = [
    "zero-area triangles are not flagged (they violate neither containment nor the area sum)",
    "GEOS is_valid decides which vertex sequences are simple polygons",
]

PACK = 48


def bounds(tier):
    return {'lattice': '3x3, 3..6 vertices, start vertex fixed' if tier == 'quick'
            else '4x3, 3..7 vertices, every start vertex up to 6 vertices', 'pack': PACK}


def lattice_polygons(cols: int, rows: int, max_vertices: int) -> list[list[tuple[int, int]]]:
    """Every valid simple polygon whose vertices are distinct lattice points, as vertex sequences
    with the lowest-numbered lattice point first (both directions are distinct sequences)."""
    points = [(x, y) for y in range(rows) for x in range(cols)]
    out: list[list[tuple[int, int]]] = []
    for k in range(3, max_vertices + 1):
        sequences = []
        for subset in itertools.combinations(range(len(points)), k):
            first = subset[0]
            for rest in itertools.permutations(subset[1:]):
                sequences.append((first,) + rest)
        arr = np.array(sequences, dtype=np.int64)
        coords = np.array(points, dtype='float64')[arr]             # (m, k, 2)
        closed = np.concatenate([coords, coords[:, :1, :]], axis=1)
        polys = shapely.polygons(closed)
        valid = shapely.is_valid(polys) & (shapely.area(polys) > 0)
        for seq in arr[valid]:
            out.append([points[i] for i in seq])
    return out


def twice_area(ring) -> Fraction:
    total = Fraction(0)
    n = len(ring)
    for k in range(n):
        x0, y0 = ring[k]
        x1, y1 = ring[(k + 1) % n]
        total += Fraction(x0) * Fraction(y1) - Fraction(x1) * Fraction(y0)
    return total


def has_reflex_or_collinear(ring) -> bool:
    n = len(ring)
    sign = 1 if twice_area(ring) > 0 else -1
    for k in range(n):
        (ax, ay), (bx, by), (cx, cy) = ring[k - 1], ring[k], ring[(k + 1) % n]
        cross = (bx - ax) * (cy - by) - (by - ay) * (cx - bx)
        if cross * sign <= 0:
            return True
    return False


_POLYGON_CACHE: dict = {}


def all_polygons(tier):
    if tier not in _POLYGON_CACHE:
        if tier == 'quick':
            polys = lattice_polygons(3, 3, 6)
        else:
            base = lattice_polygons(4, 3, 7)
            polys = []
            for p in base:
                polys.append(p)
                if len(p) <= 6:
                    for r in range(1, len(p)):
                        polys.append(p[r:] + p[:r])
        _POLYGON_CACHE[tier] = polys
    return _POLYGON_CACHE[tier]


def _cases_first_call(tier):
    polys = all_polygons(tier)
    out = []
    for start in range(0, len(polys), PACK):
        out.append({'part': 'lattice', 'polygons': [[list(v) for v in p] for p in polys[start:start + PACK]]})
    # the same polygons at a metre-scale cell size in degrees (2^-17 of a lattice unit) and at a very large one
    step = 1 if tier == 'thorough' else 3
    for scale in (2.0 ** -17, 2.0 ** 12):
        for start in range(0, len(polys), PACK * step):
            out.append({'part': 'lattice', 'scale': scale, 'polygons': [[list(v) for v in p] for p in polys[start:start + PACK]]})
    # a vertex listed twice in a row (a triangle stored in a four-column table as a b c c; a cell edge collapsed to a
    # point at a pole): every position of the repeat, in every polygon with up to five vertices
    repeated = []
    for p in polys:
        if len(p) <= 5:
            for k in range(len(p)):
                repeated.append(p[:k + 1] + [p[k]] + p[k + 1:])
            repeated.append(p + [p[0]])
    for start in range(0, len(repeated), PACK * (1 if tier == 'thorough' else 4)):
        out.append({'part': 'lattice', 'repeated': True, 'polygons': [[list(v) for v in p] for p in repeated[start:start + PACK]]})
    for spec in builders.family_specs(tier):
        if spec['family'] == 'cf2d' and spec.get('bounds') == 'derived':
            continue
        if spec['family'] == 'cf1d' and spec.get('bounds', 'none') == 'none' and min(spec['ny'], spec['nx']) < 2:
            continue
        out.append({'part': 'family', 'spec': spec})
    # cells without geometry *before* concave cells (linear indexes shift if anything is compacted)
    for holes in ('corner', 'first', 'lshape', 'interior'):
        for family in ('cf2d', 'shoc_simple'):
            out.append({'part': 'family', 'spec': {'family': family, 'ny': 3, 'nx': 3, 'geometry': 'skew', 'holes': holes,
                                                   'darts': [[1, 2], [2, 1], [2, 2]]}})
            out.append({'part': 'family', 'spec': {'family': family, 'ny': 2, 'nx': 4, 'geometry': 'rect', 'holes': holes,
                                                   'darts': [[0, 3], [1, 1]]}})
    # more cells than a narrow integer can count, but only a handful of vertices
    out.append({'part': 'family', 'spec': {'family': 'cf2d', 'ny': 24, 'nx': 24, 'geometry': 'skew', 'holes': 'mostlyland', 'nt': 1, 'nk': 1}})
    out.append({'part': 'family', 'spec': {'family': 'shoc_simple', 'ny': 17, 'nx': 16, 'holes': 'mostlyland', 'darts': [[16, 15], [15, 13]],
                                           'nt': 1, 'nk': 1}})
    if tier == 'thorough':
        out.append({'part': 'family', 'spec': {'family': 'cf2d', 'ny': 260, 'nx': 255, 'holes': 'mostlyland', 'nt': 1, 'nk': 1}})
        # exactly 65536 cells of one size (whole chunks)
        out.append({'part': 'family', 'spec': {'family': 'cf1d', 'ny': 256, 'nx': 256, 'bounds': 'var', 'nt': 1, 'nk': 1}})
    for corner in range(4):
        out.append({'part': 'family', 'spec': {'family': 'cf2d', 'ny': 3, 'nx': 3, 'geometry': 'skew', 'dart_corner': corner,
                                               'darts': [[0, 0], [0, 1], [0, 2], [1, 0], [1, 1], [1, 2], [2, 0], [2, 1], [2, 2]]}})
        out.append({'part': 'family', 'spec': {'family': 'shoc_simple', 'ny': 2, 'nx': 2, 'geometry': 'rect', 'dart_corner': corner,
                                               'darts': [[0, 0], [0, 1], [1, 0], [1, 1]]}})
    out.append({'part': 'family', 'spec': {'family': 'ugrid', 'mesh': 'M13'}})
    out.append({'part': 'family', 'spec': {'family': 'ugrid', 'mesh': 'M13', 'start_index': 1, 'fill': 'fillattr'}})
    out.append({'part': 'family', 'spec': {'family': 'ugrid', 'mesh': 'M8', 'bowtie': 1}})
    out.append({'part': 'family', 'spec': {'family': 'ugrid', 'mesh': 'M8', 'bowtie': 1, 'start_index': 1, 'fill': 'fillattr'}})
    return out


def _run_case_first_call(case):
    rec = Recorder()
    if case['part'] == 'lattice':
        nodes, faces = [], []
        for k, poly in enumerate(case['polygons']):
            offset = 5 * k
            scale = case.get('scale', 1.0)
            faces.append(list(range(len(nodes), len(nodes) + len(poly))))
            nodes.extend((float(x + offset) * scale, float(y) * scale) for x, y in poly)
            if has_reflex_or_collinear([tuple(v) for v in poly]) or case.get('repeated'):
                rec.nontrivial(k)
        spec = {'family': 'ugrid', 'mesh': 'lattice-pack', 'nodes': nodes, 'faces': faces, 'nt': 1, 'nk': 1}
        fp = "C14/lattice"
    else:
        spec = case['spec']
        fp = f"C14/{spec['family']}"
    ds, truth = builders.build(spec)
    if case['part'] == 'family' and any(c is None for c in truth.polygons):
        rec.nontrivial('holes')
    if case['part'] == 'family' and spec.get('mesh') in ('M4', 'M5', 'M8', 'M9'):
        rec.nontrivial('mesh')
    if case['part'] == 'family' and spec.get('darts'):
        rec.nontrivial('holes-before-concave')

    from emsarray.operations.triangulate import triangulate_dataset
    try:
        vertices, triangles, cell_indexes = lib(triangulate_dataset, ds)
    except LibraryRaised as err:
        rec.check(False, f"{fp}/raised", "triangulate_dataset raised", 'triangulation', str(err))
        return rec.result()

    vertices = np.asarray(vertices)
    triangles = np.asarray(triangles)
    cell_indexes = np.asarray(cell_indexes)
    vertex_list = [tuple(float(c) for c in v) for v in vertices]
    rec.check(len(set(vertex_list)) == len(vertex_list), f"{fp}/duplicate-vertices", "vertex list has duplicates",
              len(set(vertex_list)), len(vertex_list))
    rec.check(len(triangles) == len(cell_indexes), f"{fp}/lengths", "triangles and cell indexes differ in length",
              len(triangles), len(cell_indexes))
    in_range = triangles.size == 0 or (np.issubdtype(triangles.dtype, np.integer)
                                      and triangles.min() >= 0 and triangles.max() < len(vertex_list))
    if not rec.check(bool(in_range), f"{fp}/vertex-index-range", "triangle vertex index out of range or not integer",
                     f"[0, {len(vertex_list)})", [str(triangles.dtype), triangles.min() if triangles.size else None,
                                                 triangles.max() if triangles.size else None]):
        return rec.result()

    by_cell: dict[int, list] = {}
    for tri, cell in zip(triangles, cell_indexes):
        by_cell.setdefault(int(cell), []).append([vertex_list[int(i)] for i in tri])

    ncell = len(truth.polygons)
    stray = sorted(c for c in by_cell if not (0 <= c < ncell) or truth.polygons[c] is None)
    rec.check(not stray, f"{fp}/triangles-for-missing-cell", "triangles name cells without geometry or out of range", [], stray)

    for n, coords in enumerate(truth.polygons):
        if coords is None:
            continue
        ring = [tuple(float(v) for v in c) for c in coords]
        tris = by_cell.get(n, [])
        cell_poly = Polygon(ring)
        # (a ring whose last listed vertex repeats the first is already closed: one side fewer)
        sides = len(cell_poly.exterior.coords) - 1
        if not rec.check(len(tris) == sides - 2, f"{fp}/triangle-count",
                         f"cell {n} with {sides} vertices", sides - 2, len(tris)):
            continue
        ring_set = set(ring)
        area = Fraction(0)
        good = True
        for tri in tris:
            if not all(v in ring_set for v in tri):
                good = rec.check(False, f"{fp}/foreign-vertex", f"cell {n}: triangle uses a vertex that is not a vertex of the cell", ring, tri)
                break
            a = abs(twice_area(tri))
            area += a
            if a > 0 and not cell_poly.covers(Polygon(tri)):
                good = rec.check(False, f"{fp}/triangle-outside-cell", f"cell {n}: triangle not inside the cell", ring, tri)
                break
        if good:
            rec.check(area == abs(twice_area(ring)), f"{fp}/area-mismatch",
                      f"cell {n}: triangle areas do not add up to the cell area (x2)", str(abs(twice_area(ring))), str(area))
    rec.outcome([case['part'], len(triangles)])
    return rec.result()


def cases(tier):
    # first calls on freshly built datasets, then operation sequences on one object (mc/sequences.py)
    return _cases_first_call(tier) + sequences.cases_for(PROPERTY, tier)


def run_case(case):
    if case.get('part') == 'sequence':
        rec = Recorder()
        sequences.run_case(PROPERTY, case, rec)
        return rec.result()
    return _run_case_first_call(case)
