"""C20 -- command line tools compute exactly what the library computes."""
from __future__ import annotations

import contextlib
import io
import itertools
import json
import os
import re
import subprocess
import sys

import numpy as np
import pandas
import shapely
import xarray as xr
from shapely.geometry import box, mapping

from .. import builders, env, ref
from ..runner import LibraryRaised, Recorder, lib
from . import c07

PROPERTY = 'C20'
TITLE = 'Command line tools compute exactly what the library computes'
RULE = (
    "Bounds grammar: every string f1 s f2 s f3 s f4 t with fields from a 14-element palette of valid and "
    "invalid numerals, separators {',', ' , '} and tails {'', ',5', 'abc', '.6', ','} (thorough: all 14^4 x "
    "2 x 5; quick: every field varied against a valid rest, plus all tails) through geometry_argument and "
    "bounds_argument: exactly four numerals of the documented grammar must be accepted with exactly that "
    "box; anything that does not split into four numbers must never be taken as bounds.  Commands (in "
    "process, emsarray.cli.main(argv), SystemExit captured; a few real subprocesses): per dataset file of "
    "every convention: clip with bounds strings / GeoJSON strings / GeoJSON files for every palette "
    "geometry expressible that way; extract-points with every CSV table over {hit, tie, miss}^<=3 (quick "
    "<=2) x {error, drop, fill} x default / custom column and dimension names; export-geometry x 4 formats "
    "x {explicit -f, guessed from the extension, unknown extension}.  Oracle: the output file equals what "
    "the library call returns for the same inputs (against the saved library result and against the "
    "in-memory result), user-caused failures end non-zero with a message and leave no output file.  "
    "Non-trivial: strings one token away from valid bounds; failure cases; tables with misses."
    ' Also: sources whose coordinates use 1e35 fill values and packed variables, GeoJSON strings longer than a file name, tables with identical rows and completely blank rows; clip with a zero-width box, a self-crossing ring and a box 2^-22 inside one cell (as bounds, GeoJSON string and GeoJSON file), the verdict of the library call (result or refusal) being the oracle; export-geometry with an explicit format against every extension another format owns, dotted stems (grid.v2.shp), bare and relative output names, and the exact set of files created.'
    " Second phase: the first case of every distinct outcome and kind (thorough: every case, for expensive checks every kind) again with debug logging enabled, under numpy.errstate(all='ignore'), and in python -O child interpreters."
)
LEVEL_TEXT = ("the complete bounds-string product over a 14-numeral palette, and every (command, dataset, input variant) of "
              "the stated product run through the real argument parser and handlers, compared with direct library calls")
LEVEL_NOTE = "argparse / logging behaviour trusted; strings with leading or trailing blanks are don't-care"
ASSUMPTIONS = [
    "fields that Python's float() accepts but the documented grammar does not mention (1e3, +1, nan) may be accepted or refused, but never mis-read",
]

FIELDS = ['1', '-1.5', '.5', '2.', '1_000', '1__0', '_1', '1e3', '+1', '-', '', '1.2.3', '0x1', 'nan']
SEPARATORS = [',', ' , ']
TAILS = ['', ',5', 'abc', '.6', ',']
STRICT = re.compile(r'-?(?:\d+(?:_\d+)*(?:\.(?:\d+(?:_\d+)*)?)?|\.\d+(?:_\d+)*)')


def bounds(tier):
    return {'fields': FIELDS, 'separators': SEPARATORS, 'tails': TAILS,
            'grammar_strings': 'all' if tier == 'thorough' else 'each field varied against a valid rest'}


CLIP_SLICES = 4
DATASETS = [
    {'family': 'cf1d', 'ny': 3, 'nx': 4, 'ints': True},
    {'family': 'cf2d', 'ny': 3, 'nx': 3, 'geometry': 'skew', 'holes': 'corner'},
    {'family': 'shoc_simple', 'ny': 3, 'nx': 3},
    {'family': 'shoc_standard', 'nj': 3, 'ni': 3, 'ints': True, 'dry': 'corner'},
    {'family': 'ugrid', 'mesh': 'M7', 'supplied': ['edge_node'], 'ints': True},
]


def environment_key(case, outcome):
    # the second phase (other process environments): every command x family x policy once
    family = (case.get('spec') or {}).get('family')
    if case['part'] == 'extract':
        return ('extract', case.get('policy'), 'mesh' if family == 'ugrid' else 'grid')
    if case['part'] == 'grammar':
        return ('grammar',)
    return (case['part'], family, case.get('encoded'), case.get('slice'))


ENVIRONMENTS_ON_REPRESENTATIVES_ONLY = True


def cases(tier):
    out = []
    if tier == 'thorough':
        for f1 in FIELDS:
            for f2 in FIELDS:
                out.append({'part': 'grammar', 'f1': [f1], 'f2': [f2], 'f3': FIELDS, 'f4': FIELDS})
    else:
        valid = ['1', '-1.5', '.5', '2.']
        for position in range(4):
            fields = [[v] for v in valid]
            fields[position] = FIELDS
            out.append({'part': 'grammar', 'f1': fields[0], 'f2': fields[1], 'f3': fields[2], 'f4': fields[3]})
    for spec in DATASETS:
        # the clip variants of one dataset are spread over CLIP_SLICES cases (they only share the source file)
        out += [{'part': 'clip', 'spec': spec, 'slice': k} for k in range(CLIP_SLICES)]
        out.append({'part': 'export', 'spec': spec})
        if spec.get('holes') or spec.get('dry') or spec['family'] == 'ugrid':
            out.append({'part': 'export', 'spec': spec, 'encoded': True})
            out += [{'part': 'clip', 'spec': spec, 'encoded': True, 'slice': k} for k in range(CLIP_SLICES)]
        for length in ((1, 2) if tier == 'quick' else (1, 2, 3)):
            for policy in ('error', 'drop', 'fill'):
                for first in ('hit', 'tie', 'miss', 'blank'):
                    out.append({'part': 'extract', 'spec': spec, 'length': length, 'policy': policy, 'first': first})
    out.append({'part': 'subprocess'})
    # a file with more variables than a process keeps files open at once (xarray's file cache holds 128)
    out.append({'part': 'clip-many', 'spec': DATASETS[0], 'variables': 140})
    return out


# ------------------------------------------------------------------------------------- grammar


def split_fields(text: str):
    """The four fields if the string is 'a,b,c,d' (blanks around commas allowed), else None."""
    parts = re.split(r'\s*,\s*', text)
    return parts if len(parts) == 4 else None


def expectation(text: str):
    """('must', values) / ('may', values) / ('never', None)."""
    parts = split_fields(text)
    if parts is None:
        return 'never', None
    values = []
    strict = True
    for part in parts:
        if part != part.strip() or part == '':
            return 'never', None
        if not STRICT.fullmatch(part):
            strict = False
        try:
            values.append(float(part))
        except ValueError:
            return 'never', None
    return ('must' if strict else 'may'), values


def run_grammar(case, rec):
    import argparse
    from emsarray.cli import utils
    fp = "C20/bounds"
    for f1, f2, f3, f4, sep, tail in itertools.product(case['f1'], case['f2'], case['f3'], case['f4'], SEPARATORS, TAILS):
        text = sep.join([f1, f2, f3, f4]) + tail
        kind, values = expectation(text)
        if kind != 'must' or tail:
            rec.nontrivial(text)
        for name, function in (('geometry_argument', utils.geometry_argument), ('bounds_argument', utils.bounds_argument)):
            try:
                geometry = function(text)
                accepted = True
            except (argparse.ArgumentTypeError, ValueError, OSError):
                accepted = False
                geometry = None
            except Exception as err:  # noqa: BLE001
                rec.check(False, f"{fp}/crashed", f"{name}({text!r}) raised {type(err).__name__}", 'ArgumentTypeError or a box', str(err))
                continue
            if kind == 'never':
                rec.check(not accepted, f"{fp}/non-bounds-taken-as-bounds", f"{name}({text!r}) returned a geometry", 'refused',
                          None if geometry is None else geometry.wkt)
            elif accepted:
                nan = any(np.isnan(v) for v in values)
                # (a box of zero width or height is a degenerate polygon, for which GEOS' `equals` is false even against
                # itself: compare the vertex sets then)
                reference = box(*values)
                same_shape = geometry.equals(reference) or (
                    reference.area == 0 and geometry.geom_type == 'Polygon'
                    and set(geometry.exterior.coords) == set(reference.exterior.coords))
                same = (not nan) and same_shape and tuple(geometry.bounds) == (
                    min(values[0], values[2]), min(values[1], values[3]), max(values[0], values[2]), max(values[1], values[3]))
                if nan:
                    rec.step()
                else:
                    rec.check(same, f"{fp}/wrong-box", f"{name}({text!r})", values, list(geometry.bounds))
            else:
                rec.check(kind == 'may', f"{fp}/valid-bounds-refused", f"{name}({text!r}) refused four valid numbers", values, 'refused')
    rec.outcome(['grammar', len(case['f1']), len(case['f4'])])


# ------------------------------------------------------------------------------------ commands


def run_cli(argv):
    """emsarray.cli.main in process; returns (exit status, stderr text)."""
    from emsarray.cli import main
    stderr, stdout = io.StringIO(), io.StringIO()
    status = 0
    with contextlib.redirect_stderr(stderr), contextlib.redirect_stdout(stdout):
        try:
            main([str(a) for a in argv])
        except SystemExit as exit_:
            status = exit_.code if isinstance(exit_.code, int) else (0 if exit_.code is None else 1)
    return status, stderr.getvalue() + stdout.getvalue()


def same_file_content(a_path, b_path) -> tuple[bool, str]:
    with xr.open_dataset(a_path) as a, xr.open_dataset(b_path) as b:
        if a.identical(b):
            return True, ''
        return False, f"{sorted(map(str, a.variables))} vs {sorted(map(str, b.variables))}"


def matches_memory(path, expected: xr.Dataset) -> tuple[bool, str]:
    """The file holds the values of the in-memory library result."""
    with xr.open_dataset(path) as got:
        got.load()
        for name in expected.variables:
            if name not in got.variables:
                return False, f"{name} missing"
            a, b = expected[name], got[name]
            if tuple(a.dims) != tuple(b.dims):
                return False, f"{name}: dims {a.dims} vs {b.dims}"
            av, bv = np.asarray(a.values), np.asarray(b.values)
            if av.dtype.kind in 'OUS' or bv.dtype.kind in 'OUS':
                def text(v):
                    # a missing string (blank table cell) is NaN / None in memory and an empty string in a netCDF file
                    return '' if v is None or (isinstance(v, float) and v != v) else str(v)
                if [text(v) for v in av.ravel()] != [text(v) for v in bv.ravel()]:
                    return False, f"{name}: {av.tolist()} vs {bv.tolist()}"
            elif av.dtype.kind == 'M':
                if not np.array_equal(av.astype('datetime64[ns]'), bv.astype('datetime64[ns]')):
                    return False, f"{name}: times differ"
            elif not np.array_equal(av.astype('float64'), bv.astype('float64'), equal_nan=True):
                return False, f"{name}: {av.ravel()[:6].tolist()} vs {bv.ravel()[:6].tolist()}"
        return True, ''


def write_source(spec, tmp, encoded=False):
    ds, truth = builders.build(spec)
    path = os.path.join(tmp, 'source.nc')
    if encoded:
        # EMS style files: missing coordinates are written as 1e35, not NaN; whole variables may be packed
        for name in truth.geometry_names:
            if name in ds.variables and ds[name].dtype.kind == 'f':
                ds[name].encoding['_FillValue'] = 1e35
        for name in ('botz',):
            ds[name].encoding.update({'dtype': 'int32', 'scale_factor': 0.5, 'add_offset': 100.0, '_FillValue': -2147483647})
    ds.to_netcdf(path)
    return path, truth


def fmt(value: float) -> str:
    # plain decimal digits only (the documented grammar has no exponents), exact for binary fractions
    return np.format_float_positional(float(value), trim='0')


def run_clip(case, rec):
    import emsarray
    fp = f"C20/clip/{case['spec']['family']}"
    with env.scratch_dir() as tmp:
        source, truth = write_source(case['spec'], tmp, encoded=case.get('encoded', False))
        polys = ref.ref_polygons(truth)
        geoms, _ = c07.palette(truth, polys)
        variants = []
        # a polygon with many vertices: its GeoJSON text is longer than a file name may be
        ring = list(geoms['everything'].exterior.coords)
        (ax, ay), (bx, by) = ring[0], ring[1]
        dense = [(ax + (bx - ax) * k / 64, ay + (by - ay) * k / 64) for k in range(64)] + ring[1:]
        variants.append(('long-geojson-string', json.dumps(mapping(shapely.Polygon(dense))), shapely.Polygon(dense)))
        for name in ('tiny', 'everything', 'cell-envelope'):
            g = geoms[name]
            b = g.bounds
            if g.equals(box(*b)):
                variants.append((f'{name}:bounds', ','.join(fmt(v) for v in b), box(*b)))
                variants.append((f'{name}:bounds-spaced', ' , '.join(fmt(v) for v in b), box(*b)))
        for name in ('with-hole', 'line', 'two-part', 'cell-envelope'):
            g = geoms[name]
            variants.append((f'{name}:geojson', json.dumps(mapping(g)), g))
            path = os.path.join(tmp, f'{name}.geojson')
            with open(path, 'w') as f:
                json.dump(mapping(g), f)
            variants.append((f'{name}:geojson-file', path, g))
        # geometries GEOS calls invalid, which the library nevertheless takes as they are: a box of zero width
        # through the middle of the first cell, and a self-crossing ring over the whole grid
        x0, y0, x1, y1 = geoms['everything'].bounds
        first = next(p for p in polys if p is not None)
        cx = first.centroid.x
        variants.append(('zero-width:bounds', ','.join(fmt(v) for v in (cx, y0, cx, y1)), box(cx, y0, cx, y1)))
        bowtie = shapely.Polygon([(x0, y0), (x1, y1), (x1, y0), (x0, y1), (x0, y0)])
        variants.append(('bowtie:geojson', json.dumps(mapping(bowtie)), bowtie))
        path = os.path.join(tmp, 'bowtie.geojson')
        with open(path, 'w') as f:
            json.dump(mapping(bowtie), f)
        variants.append(('bowtie:geojson-file', path, bowtie))
        # coordinates with more decimals than a metre-precision text format keeps: a box 2^-22 inside a cell's envelope
        eps = 2.0 ** -22
        b = first.bounds
        inside = box(b[0] + eps, b[1] + eps, b[2] - eps, b[3] - eps)
        variants.append(('just-inside-a-cell:geojson', json.dumps(mapping(inside)), inside))
        variants.append(('just-inside-a-cell:bounds', ','.join(fmt(v) for v in inside.bounds), inside))
        path = os.path.join(tmp, 'inside.geojson')
        with open(path, 'w') as f:
            json.dump(mapping(inside), f)
        variants.append(('just-inside-a-cell:geojson-file', path, inside))
        for k, (label, argument, geometry) in enumerate(variants):
            if k % CLIP_SLICES != case.get('slice', 0):
                continue
            rec.nontrivial(label)
            cli_out = os.path.join(tmp, f'cli-{k}.nc')
            lib_out = os.path.join(tmp, f'lib-{k}.nc')
            work = os.path.join(tmp, f'work-{k}')
            os.mkdir(work)
            dataset = emsarray.open_dataset(source)
            try:
                clipped = lib(dataset.ems.clip, geometry, work)
                lib(clipped.ems.to_netcdf, lib_out)
                library_refuses = None
            except LibraryRaised as err:
                library_refuses = str(err)
            # '--': the POSIX way to pass an argument that starts with '-' (a negative lon_min) positionally
            status, message = run_cli(['clip', '--', source, argument, cli_out])
            if library_refuses is not None:
                rec.check(status != 0, f"{fp}/succeeds-where-library-refuses", f"clip {label}: status {status}", library_refuses[-200:], status)
                dataset.close()
                continue
            if not rec.check(status == 0 and os.path.exists(cli_out), f"{fp}/failed", f"clip {label} exited {status}", 0, message[-300:]):
                dataset.close()
                continue
            same, why = same_file_content(cli_out, lib_out)
            rec.check(same, f"{fp}/differs-from-library", f"clip {label}: output differs from the library result", 'identical', why)
            dataset.close()
        # unreadable geometry: never a success, never an output file
        for label, argument in () if case.get('slice', 0) else (('bad-json', '{"type": "Polygon", "coordinates": [[1, 2]]}'), ('missing-file', os.path.join(tmp, 'nope.geojson')),
                                ('five-numbers', '1,2,3,4,5'), ('not-geojson-file', source)):
            cli_out = os.path.join(tmp, f'bad-{label}.nc')
            status, message = run_cli(['clip', source, argument, cli_out])
            rec.nontrivial(label)
            rec.check(status != 0 and message.strip() != '' and not os.path.exists(cli_out), f"{fp}/bad-geometry-accepted/{label}",
                      f"clip with {label} geometry: status {status}", 'non-zero status, message, no output', [status, os.path.exists(cli_out)])
    rec.outcome(['clip', case['spec']['family'], case.get('slice', 0)])


def run_clip_many(case, rec):
    import emsarray
    fp = f"C20/clip/{case['spec']['family']}"
    with env.scratch_dir() as tmp:
        ds, truth = builders.build(case['spec'])
        for k in range(case['variables']):
            ds[f'tracer_{k:03d}'] = ds['botz'] + k
        source = os.path.join(tmp, 'source.nc')
        ds.to_netcdf(source)
        polys = ref.ref_polygons(truth)
        geoms, _ = c07.palette(truth, polys)
        region = geoms['cell-envelope']
        argument = ','.join(fmt(v) for v in region.bounds)
        cli_out = os.path.join(tmp, 'cli.nc')
        status, message = run_cli(['clip', '--', source, argument, cli_out])
        rec.nontrivial('many-variables')
        if rec.check(status == 0 and os.path.exists(cli_out), f"{fp}/failed", f"clip of a file with {case['variables']} extra variables exited {status}", 0, message[-300:]):
            work = os.path.join(tmp, 'work')
            os.mkdir(work)
            dataset = emsarray.open_dataset(source)
            lib_out = os.path.join(tmp, 'lib.nc')
            clipped = lib(dataset.ems.clip, box(*region.bounds), work)
            lib(clipped.ems.to_netcdf, lib_out)
            same, why = same_file_content(cli_out, lib_out)
            rec.check(same, f"{fp}/differs-from-library", "clip of a file with many variables: output differs from the library result", 'identical', why)
            dataset.close()
    rec.outcome(['clip-many', case['variables']])


def run_export(case, rec):
    import emsarray
    from emsarray.operations import geometry
    fp = f"C20/export/{case['spec']['family']}"
    writers = {'geojson': geometry.write_geojson, 'shapefile': geometry.write_shapefile, 'wkt': geometry.write_wkt, 'wkb': geometry.write_wkb}
    extensions = {'geojson': ['.geojson', '.json'], 'shapefile': ['.shp'], 'wkt': ['.wkt'], 'wkb': ['.wkb']}
    with env.scratch_dir() as tmp:
        source, truth = write_source(case['spec'], tmp, encoded=case.get('encoded', False))
        dataset = emsarray.open_dataset(source)
        n = 0
        for fmt_name, writer in writers.items():
            lib_path = os.path.join(tmp, f'lib{extensions[fmt_name][0]}')
            lib(writer, dataset, lib_path)
            with open(lib_path, 'rb') as f:
                want = f.read()
            runs = [(['-f', fmt_name], f'explicit{extensions[fmt_name][0]}')]
            # an explicit format wins over whatever the file name suggests: every extension another format owns
            for other, exts in extensions.items():
                if other != fmt_name:
                    runs += [(['-f', fmt_name], f'explicit-not-{other}{ext}') for ext in exts]
            runs.append((['-f', fmt_name], 'explicit.dat'))
            runs += [([], f'guessed{ext}') for ext in extensions[fmt_name]]
            # names with a dot in the stem
            runs += [([], f'grid.v2{ext}') for ext in extensions[fmt_name]]
            runs.append((['-f', fmt_name], 'model.2024.blob'))
            # a bare file name / a relative path, resolved against the current directory
            runs.append((['-f', fmt_name], f'./bare{extensions[fmt_name][0]}'))
            runs.append(([], f'./sub/relative{extensions[fmt_name][0]}'))
            os.makedirs(os.path.join(tmp, 'sub'), exist_ok=True)
            for flags, filename in runs:
                n += 1
                rec.nontrivial((fmt_name, filename))
                if filename.startswith('./'):
                    relative = filename[2:]
                    relative = os.path.join(os.path.dirname(relative), f'{n}-{os.path.basename(relative)}')
                    out, argument, cwd = os.path.join(tmp, relative), relative, tmp
                else:
                    out = argument = os.path.join(tmp, f'{n}-{filename}')
                    cwd = None
                if n % 5 == 0 and fmt_name != 'shapefile':
                    # the output path already holds something else, newer than the input
                    with open(out, 'w') as stale:
                        stale.write('left over from another run')
                    os.utime(out, (os.path.getmtime(source) + 3600, os.path.getmtime(source) + 3600))
                    rec.nontrivial(('pre-existing', filename))
                before = (set(os.listdir(tmp)) | {os.path.join('sub', x) for x in os.listdir(os.path.join(tmp, 'sub'))}) - {os.path.relpath(out, tmp)}
                here = os.getcwd()
                try:
                    if cwd:
                        os.chdir(cwd)
                    status, message = run_cli(['export-geometry', source, argument] + flags)
                finally:
                    os.chdir(here)
                after = set(os.listdir(tmp)) | {os.path.join('sub', x) for x in os.listdir(os.path.join(tmp, 'sub'))}
                if fmt_name == 'shapefile':
                    # a shapefile is a family of files named after the base name (last extension replaced)
                    base = os.path.splitext(out)[0]
                    lib_base = os.path.splitext(lib_path)[0]
                    produced = {base + e: lib_base + e for e in ('.shp', '.shx', '.dbf', '.prj')}
                else:
                    produced = {out: lib_path}
                expected_new = {os.path.relpath(p, tmp) for p in produced}
                if not rec.check(status == 0 and all(os.path.exists(p) for p in produced), f"{fp}/failed",
                                 f"export-geometry {flags} {filename}: status {status}", sorted(expected_new), [message[-300:], sorted(after - before)]):
                    continue
                rec.check(after - before == expected_new, f"{fp}/other-files-written", f"export-geometry {flags} {filename}: files created",
                          sorted(expected_new), sorted(after - before))
                for got_path, want_path in produced.items():
                    with open(got_path, 'rb') as f:
                        got = f.read()
                    with open(want_path, 'rb') as f:
                        want = f.read()
                    if got_path.endswith('.dbf'):
                        got, want = got[4:], want[4:]      # bytes 1..3 of a dBase header are the date of writing
                    rec.check(got == want, f"{fp}/differs-from-library",
                              f"export-geometry {flags} {filename}: {os.path.basename(got_path)} differs from write_{fmt_name}", len(want), len(got))
        for filename in ('unknown.xyz', 'noextension'):
            out = os.path.join(tmp, filename)
            status, message = run_cli(['export-geometry', source, out])
            rec.check(status != 0 and message.strip() != '' and not os.path.exists(out), f"{fp}/unknown-format-accepted",
                      f"export-geometry to {filename}: status {status}", 'non-zero status, message, no output', [status, os.path.exists(out)])
        status, message = run_cli(['export-geometry', source, os.path.join(tmp, 'x.wkt'), '-f', 'dxf'])
        rec.check(status != 0 and message.strip() != '', f"{fp}/unknown-format-accepted", f"export-geometry -f dxf: status {status}", 'non-zero', status)
        dataset.close()
    rec.outcome(['export', case['spec']['family']])


def run_extract(case, rec):
    import emsarray
    from emsarray.operations import point_extraction
    from emsarray.utils import to_netcdf_with_fixes
    from .c05 import point_symbols
    fp = f"C20/extract/{case['spec']['family']}"
    policy = case['policy']
    with env.scratch_dir() as tmp:
        source, truth = write_source(case['spec'], tmp)
        symbols = point_symbols(truth)
        polys = symbols['_polys']
        n = 0
        symbols['blank'] = shapely.Point(float('nan'), float('nan'))
        for combo in itertools.product(('hit', 'tie', 'miss', 'blank'), repeat=case['length']):
            if combo[0] != case['first']:
                continue
            points = [symbols[s] for s in combo]
            misses = [k for k, p in enumerate(points) if not ref.brute_hits(polys, p)]
            hits = [k for k in range(len(points)) if k not in misses]
            if misses:
                rec.nontrivial((combo, policy))
            variants = [(False, False)]
            if case['length'] == 2:
                variants.append((True, False))
            if len(set(combo)) < len(combo):
                variants.append((False, True))      # the same station listed twice: fully identical rows
            for custom, identical_rows in variants:
                n += 1
                lon_col, lat_col, dim = ('x', 'y', 'station') if custom else ('lon', 'lat', 'point')
                frame = pandas.DataFrame({lon_col: [p.x for p in points], lat_col: [p.y for p in points],
                                          'name': [f'site-{combo[k]}' if identical_rows else f'Reef #{k} row' for k in range(len(points))]})
                # a blank symbol is a completely empty line of the table (",,")
                for k, sym in enumerate(combo):
                    if sym == 'blank':
                        frame.loc[k, 'name'] = None
                csv = os.path.join(tmp, f'points-{n}.csv')
                frame.to_csv(csv, index=False)
                cli_out = os.path.join(tmp, f'cli-{n}.nc')
                argv = ['extract-points', source, csv, cli_out, '--missing-points', policy]
                if custom:
                    argv += ['-c', lon_col, lat_col, '-d', dim]
                status, message = run_cli(argv)
                label = f"extract-points {list(combo)} {policy}{' custom names' if custom else ''}{' identical rows' if identical_rows else ''}"
                must_fail = (policy == 'error' and misses) or (policy in ('drop', 'fill') and not hits)
                if must_fail:
                    if policy == 'error':
                        rec.check(status != 0 and message.strip() != '' and not os.path.exists(cli_out), f"{fp}/missing-points-not-reported",
                                  f"{label}: status {status}", 'non-zero status, message, no output', [status, os.path.exists(cli_out)])
                    else:
                        rec.check(status != 0 or os.path.exists(cli_out), f"{fp}/silent", f"{label}: neither failed nor wrote a file", 'either', status)
                    continue
                if not rec.check(status == 0 and os.path.exists(cli_out), f"{fp}/failed", f"{label}: status {status}", 0, message[-300:]):
                    continue
                dataset = emsarray.open_dataset(source)
                table = pandas.read_csv(csv)
                expected = lib(point_extraction.extract_dataframe, dataset, table, (lon_col, lat_col),
                               point_dimension=dim, missing_points=policy)
                lib_out = os.path.join(tmp, f'lib-{n}.nc')
                lib(to_netcdf_with_fixes, expected, lib_out, time_variable=truth.time_name)
                same, why = same_file_content(cli_out, lib_out)
                rec.check(same, f"{fp}/differs-from-library", f"{label}: output differs from the saved library result", 'identical', why)
                same, why = matches_memory(cli_out, expected)
                which = 'file-differs-from-returned-values' + ('-fill-integer' if policy == 'fill' and misses else '')
                rec.check(same, f"{fp}/{which}", f"{label}: file content differs from what extract_dataframe returned", 'equal values', why)
                dataset.close()
    rec.outcome(['extract', case['spec']['family'], case['length'], policy, case['first']])


def run_subprocess(case, rec):
    """The console entry point for real: python -m emsarray ..."""
    fp = "C20/subprocess"
    child_env = dict(os.environ)
    child_env['PYTHONPATH'] = env.SRC
    # same ownership of nondeterminism as in process: no concurrent threads inside a non-thread-safe HDF5
    child_env['DASK_SCHEDULER'] = 'synchronous'
    with env.scratch_dir() as tmp:
        source, truth = write_source(DATASETS[0], tmp)
        ok_out = os.path.join(tmp, 'ok.wkt')
        runs = [
            (['export-geometry', source, ok_out], 0, ok_out),
            (['export-geometry', source, os.path.join(tmp, 'bad.xyz')], 'nonzero', None),
            (['clip', source, '1,2,3,4,5', os.path.join(tmp, 'c.nc')], 'nonzero', None),
            (['clip', source, '9.9,-2.3,10.6,-1.6', os.path.join(tmp, 'c2.nc')], 0, os.path.join(tmp, 'c2.nc')),
        ]
        for argv, want, produced in runs:
            proc = subprocess.run([sys.executable, '-m', 'emsarray'] + argv, capture_output=True, text=True, env=child_env, timeout=600)
            rec.nontrivial(tuple(argv[:1] + argv[2:3]))
            if want == 0:
                rec.check(proc.returncode == 0 and os.path.exists(produced), f"{fp}/failed", f"python -m emsarray {argv[0]}: status {proc.returncode}", 0,
                          proc.stderr[-300:])
            else:
                rec.check(proc.returncode != 0 and proc.stderr.strip() != '', f"{fp}/failure-not-reported",
                          f"python -m emsarray {' '.join(argv[:1] + argv[2:3])}: status {proc.returncode}", 'non-zero with message', proc.returncode)
    rec.outcome(['subprocess'])


def run_case(case):
    rec = Recorder()
    {'grammar': run_grammar, 'clip': run_clip, 'clip-many': run_clip_many, 'export': run_export, 'extract': run_extract,
     'subprocess': run_subprocess}[case['part']](case, rec)
    return rec.result()
