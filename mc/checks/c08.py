"""C08 -- clipping keeps every selected value and blanks everything else."""
from __future__ import annotations

import numpy as np

from .. import builders, clipping, env, ref
from ..runner import LibraryRaised, Recorder

PROPERTY = 'C08'
TITLE = 'Clipping keeps every selected value and blanks everything else'
RULE = (
    "One case per (dataset with a full variable inventory, regime {built in memory, written to netCDF and "
    "reopened, reopened without mask_and_scale}, clip geometry from the dataset-derived palette, buffer "
    "0/1).  Inside a case the three pipelines a mask can go through -- applied directly; saved to netCDF, "
    "reloaded and applied; the reloaded mask applied to a second dataset with the same geometry and "
    "different labels -- are all executed, each with a fresh work directory.  Oracle: every output cell "
    "is mapped back to its input cell (crop offset / rank among kept elements): selected cell -> every "
    "value equals the input, unselected cell left in the crop -> missing in every variable that can hold "
    "missing, integer variables without fill cropped but unaltered, non-spatial variables, coordinates "
    "and attributes identical.  Non-trivial: crops that keep unselected cells inside them, reloaded masks "
    "and masks applied to the second dataset."
    " Datasets also arrive with a history: warmed convention, copy, deep copy, pickle, netCDF round trip, fully chunked (dask), and hand-built conventions for coordinates autodetection would not pick (decoy pair), after warm / pickle. Second phase: the first case of every distinct outcome and kind (thorough: every case, for expensive checks every kind) again with debug logging enabled, under numpy.errstate(all='ignore'), and in python -O child interpreters."
)
LEVEL_TEXT = ("all three mask pipelines for every (dataset, regime, geometry, buffer) of the stated product; every output "
              "cell of every variable on every grid kind compared with its input cell or required to be missing")
LEVEL_NOTE = ("xarray/netCDF4 I/O trusted; the masks themselves are C07's subject and are read back from the mask dataset; "
              "a work directory is never reused")
ASSUMPTIONS = [
    "the representation of a fill value may move between attrs and encoding, so _FillValue / missing_value are not compared as attributes",
]

SKIP_ATTRS = {'_FillValue', 'missing_value'}


def bounds(tier):
    return {'cases': 'clipping.clip_cases(tier)', 'pipelines': ['direct', 'direct-again', 'reloaded', 'other'], 'buffers': [0, 1]}


from ..runner import coarse_environment_key as environment_key  # noqa: E402  (expensive cases: second phase on one case per kind)
ENVIRONMENTS_ON_REPRESENTATIVES_ONLY = True


def cases(tier):
    return clipping.clip_cases(tier, 'C08')


def is_missing(values, vt, attrs_in) -> np.ndarray:
    values = np.asarray(values)
    if values.dtype.kind == 'f':
        return np.isnan(values)
    for key in ('_FillValue', 'missing_value'):
        if key in attrs_in:
            return values == attrs_in[key]
    return np.zeros(values.shape, dtype=bool)


def can_hold_missing(data_array) -> bool:
    if data_array.dtype.kind == 'f':
        return True
    return '_FillValue' in data_array.attrs or 'missing_value' in data_array.attrs


def compare_attrs(rec, fp, label, want: dict, got: dict):
    want = {k: v for k, v in want.items() if k not in SKIP_ATTRS}
    got = {k: v for k, v in got.items() if k not in SKIP_ATTRS}
    same = set(want) == set(got) and all(np.array_equal(np.asarray(want[k]), np.asarray(got[k])) for k in want)
    rec.check(same, f"{fp}/attributes", f"{label}: attributes changed", {k: str(v) for k, v in want.items()},
              {k: str(v) for k, v in got.items()})


def run_case(case):
    rec = Recorder()
    family = case['spec']['family']
    fp = f"C08/{family}/{case['regime']}"
    with env.scratch_dir() as tmp:
        for name, ds_in, truth, mask, out in clipping.run_pipelines(case, tmp):
            label = f"{name} {case['geometry']} buffer={case['buffer']}"
            if name != 'direct':
                rec.nontrivial(name)
            if isinstance(out, LibraryRaised) or mask is None:
                rec.check(False, f"{fp}/{error_class(out)}", f"{label}: clipping raised", 'clipped dataset', str(out))
                continue
            if family == 'ugrid':
                check_mesh(rec, fp, label, ds_in, truth, mask, out)
            else:
                check_grid(rec, fp, label, ds_in, truth, mask, out)
            check_passthrough(rec, fp, label, ds_in, truth, out)
    rec.outcome([family, case['regime'], case['geometry'], case['buffer']])
    return rec.result()


def error_class(err) -> str:
    """A coarse, stable description of where clipping failed, used in fingerprints."""
    text = str(err)
    if 'primary dimension' in text:
        return 'raised-primary-dimension'
    if "'_FillValue' already exists" in text or '_FillValue' in text and 'already exists' in text:
        return 'raised-fillvalue-conflict'
    if 'same name as one of its coordinates' in text or 'should be coordinates or not' in text:
        return 'raised-plain-coordinates'
    if 'masked element' in text:
        return 'raised-masked-element'
    if 'standard_name' in text:
        return 'raised-standard-name'
    return 'raised-' + text.split(':')[0][:40].replace(' ', '-')


def check_passthrough(rec, fp, label, ds_in, truth, out):
    compare_attrs(rec, fp, f"{label} global", dict(ds_in.attrs), dict(out.attrs))
    spatial = {d for info in truth.kinds.values() for d in info['dims']}
    for name in ds_in.variables:
        if name not in out.variables:
            rec.check(False, f"{fp}/variable-lost", f"{label}: variable {name} missing from the output", name, sorted(map(str, out.variables)))
            continue
        compare_attrs(rec, fp, f"{label} {name}", dict(ds_in[name].attrs), dict(out[name].attrs))
        rec.check((name in ds_in.coords) == (name in out.coords), f"{fp}/coordinate-status",
                  f"{label}: {name} changed between coordinate and data variable", name in ds_in.coords, name in out.coords)
        if not spatial.intersection(ds_in[name].dims):
            same = tuple(ds_in[name].dims) == tuple(out[name].dims) and ref.same_values(
                np.asarray(ds_in[name].values, dtype='float64') if ds_in[name].dtype.kind in 'fiuM' else ds_in[name].values,
                np.asarray(out[name].values, dtype='float64') if out[name].dtype.kind in 'fiuM' else out[name].values)
            rec.check(same, f"{fp}/non-spatial-changed", f"{label}: non-spatial variable {name} changed",
                      ds_in[name].values, out[name].values)
    order_in = [n for n in ds_in.data_vars]
    order_out = [n for n in out.data_vars]
    rec.check(order_in == order_out, f"{fp}/variable-order", f"{label}: data variables reordered or changed", order_in, order_out)


def check_grid(rec, fp, label, ds_in, truth, mask, out):
    selection = clipping.grid_selection(truth, mask)
    crop = {}
    for kind, (values, slices) in selection.items():
        crop.update(slices)
    # every dimension is cropped to the bounding slice of the mask
    for dim, (lo, hi) in crop.items():
        rec.check(out.sizes.get(dim) == hi - lo, f"{fp}/crop-size", f"{label}: size of {dim}", hi - lo, out.sizes.get(dim))
    if any(out.sizes.get(dim) != hi - lo for dim, (lo, hi) in crop.items()):
        return
    leftover = False
    for vt in truth.vars.values():
        kind = vt['kind']
        if kind is None:
            continue
        name = vt['name']
        if name not in out.variables:
            continue  # reported by check_passthrough
        var_in, var_out = ds_in[name], out[name]
        dims = tuple(truth.kinds[kind]['dims'])
        values, slices = selection[kind]
        rec.check(tuple(var_out.dims) == tuple(var_in.dims), f"{fp}/dims-changed", f"{label}: dims of {name}", var_in.dims, var_out.dims)
        if tuple(var_out.dims) != tuple(var_in.dims):
            continue
        holds_missing = can_hold_missing(var_in)
        if not holds_missing:
            rec.check(var_out.dtype == var_in.dtype, f"{fp}/dtype-changed", f"{label}: dtype of {name} (cannot hold missing)",
                      str(var_in.dtype), str(var_out.dtype))
        (j0, j1), (i0, i1) = slices[dims[0]], slices[dims[1]]
        for j in range(j0, j1):
            for i in range(i0, i1):
                cell_in = np.asarray(var_in.isel({dims[0]: j, dims[1]: i}).values)
                cell_out = np.asarray(var_out.isel({dims[0]: j - j0, dims[1]: i - i0}).values)
                if values[j, i] or not holds_missing:
                    same = ref.same_values(cell_out.astype('float64'), cell_in.astype('float64'))
                    which = 'selected-value-changed' if values[j, i] else 'unmaskable-variable-altered'
                    if not rec.check(same, f"{fp}/{which}", f"{label}: {name} at {kind} cell ({j},{i})", cell_in, cell_out):
                        break
                else:
                    leftover = True
                    gone = bool(np.all(is_missing(cell_out, vt, var_in.attrs)))
                    if not rec.check(gone, f"{fp}/unselected-value-survives", f"{label}: {name} at unselected {kind} cell ({j},{i})",
                                     'missing', cell_out):
                        break
    if leftover:
        rec.nontrivial(('leftover', label))


def check_mesh(rec, fp, label, ds_in, truth, mask, out):
    kept = clipping.mesh_selection(truth, mask)
    data_kinds = truth.get('data_kinds', truth.kinds)
    for kind, rows in kept.items():
        if kind not in data_kinds and kind != 'face' and kind != 'node':
            continue
        dim = truth.kinds[kind]['dims'][0] if kind in truth.kinds else None
        if dim is None or dim not in ds_in.sizes:
            continue
        rec.check(out.sizes.get(dim) == len(rows), f"{fp}/kept-count", f"{label}: size of {dim}", len(rows), out.sizes.get(dim))
    for vt in truth.vars.values():
        kind = vt['kind']
        if kind is None:
            continue
        name = vt['name']
        if name not in out.variables or kind not in kept:
            continue
        dim = truth.kinds[kind]['dims'][0]
        var_in, var_out = ds_in[name], out[name]
        if tuple(var_out.dims) != tuple(var_in.dims) or var_out.sizes[dim] != len(kept[kind]):
            rec.check(False, f"{fp}/dims-changed", f"{label}: dims/size of {name}", [var_in.dims, len(kept[kind])],
                      [var_out.dims, dict(var_out.sizes)])
            continue
        want = var_in.isel({dim: kept[kind]}).values
        got = var_out.values
        same = ref.same_values(np.asarray(got, dtype='float64'), np.asarray(want, dtype='float64'))
        rec.check(same, f"{fp}/selected-value-changed", f"{label}: {name} on kept {kind}s {kept[kind]}", want, got)
        if not can_hold_missing(var_in):
            rec.check(var_out.dtype == var_in.dtype, f"{fp}/dtype-changed", f"{label}: dtype of {name}", str(var_in.dtype), str(var_out.dtype))
