"""C07 -- clip masks select exactly the intersecting cells plus the requested buffer."""
from __future__ import annotations

import itertools

import numpy as np
import shapely
from shapely.geometry import LineString, MultiPolygon, Point, Polygon, box

from .. import builders, ref, sequences
from ..runner import LibraryRaised, Recorder, lib

PROPERTY = 'C07'
TITLE = 'Clip masks select exactly the intersecting cells plus the requested buffer'
RULE = (
    "Part A (end to end): one case per dataset of the family list; inside, a palette of 13 clip "
    "geometries positioned from the dataset's own cells (box inside a cell, a cell's envelope, "
    "everything, first row, touching the hull along an edge / at a corner, line, point, shared vertex, "
    "two-part multipolygon, polygon with a hole, far away, line along a cell edge) x buffer 0..3.  Part B "
    "(primitives, exhaustive): every boolean array of every shape r x c, r,c <= 4 (quick: r*c <= 12; thorough also 1x5..3x5 and 5x1..5x3) x "
    "blur_mask size 1..3, smear_mask with the three pad patterns and c_mask_from_centres; every subset of "
    "faces of every library mesh (M7/M9: all 2^12 in thorough, all subsets of <= 3 faces in quick) x "
    "buffer_faces and mask_from_face_indexes.  Oracle: brute-force intersects, Chebyshev dilation, "
    "node-sharing closure, edge/node membership by definition, ranks in original order, monotonicity.  "
    "Non-trivial: geometries that touch without overlapping, buffer >= 2, datasets with > 10 cells, "
    "arrays with a marked cell on the border."
    ' Also: meshes supplying face_face or all tables, one-based tables with fill value 0, a mesh with nodes that belong to no face.'
    " Datasets also arrive with a history: warmed convention, copy, deep copy, pickle, netCDF round trip, fully chunked (dask), and hand-built conventions for coordinates autodetection would not pick (decoy pair), after warm / pickle. Also (operation sequences, mc/sequences.py): for 8 base datasets and every sequence `first [middle] query` over 36 operations (queries, in-place edits a user makes, transforms whose result is used next; quick length 2, thorough length 3) ending in one of this property's own queries, the answer on the one used object equals the answer on a never-used rebuild. Second phase: the first case of every distinct outcome and kind (thorough: every case, for expensive checks every kind) again with debug logging enabled, under numpy.errstate(all='ignore'), and in python -O child interpreters."
)
LEVEL_TEXT = ("all boolean arrays up to 4x4 for the ring-growing / edge-node-marking primitives, all face subsets of the "
              "library meshes for buffer_faces / mask_from_face_indexes, and 13 dataset-derived clip geometries x "
              "buffer 0..3 on every dataset of the family list, against brute force")
LEVEL_NOTE = "GEOS intersects on dyadic coordinates; grids larger than 4x4 / meshes beyond the library are not explored"
ASSUMPTIONS = [
    "cells without geometry can be marked by the buffer (they are within that many steps) but never by intersection",
]

BUFFERS = (0, 1, 2, 3)


def bounds(tier):
    return {'arrays': 'all r x c boolean arrays, r,c <= 4' + (' with r*c <= 12' if tier == 'quick' else ''),
            'buffers': list(BUFFERS), 'palette': 13}


def array_shapes(tier):
    out = []
    for r in range(1, 5):
        for c in range(1, 5):
            if tier == 'quick' and r * c > 12:
                continue
            out.append((r, c))
    if tier == 'thorough':
        out += [(1, 5), (5, 1), (2, 5), (5, 2), (3, 5), (5, 3)]
    return out


CHUNK = 512


def _cases_first_call(tier):
    out = []
    for spec in builders.family_specs(tier):
        if spec['family'] == 'cf2d' and spec.get('bounds') == 'derived' and spec.get('holes', 'none') != 'none':
            continue
        if spec['family'] == 'cf1d' and spec.get('bounds', 'none') == 'none' and min(spec['ny'], spec['nx']) < 2:
            continue
        out.append({'part': 'A', 'spec': spec})
    # a plugin convention derived from a built-in one through the documented hook (_make_polygons): land cells without polygons
    out.append({'part': 'A', 'spec': {'family': 'cf1d', 'ny': 3, 'nx': 4, 'bounds': 'var', 'plugin': 'holed', 'plugin_missing': [5, 6],
                                      'explicit_names': True}})
    out.append({'part': 'A', 'spec': {'family': 'cf1d', 'ny': 4, 'nx': 3, 'plugin': 'holed', 'plugin_missing': [0, 4, 11], 'explicit_names': True}})
    for (r, c) in array_shapes(tier):
        total = 2 ** (r * c)
        for start in range(0, total, CHUNK):
            out.append({'part': 'B', 'rows': r, 'cols': c, 'start': start, 'stop': min(total, start + CHUNK)})
    meshes = ['M1', 'M2', 'M3', 'M4', 'M5', 'M6', 'M8', 'M10', 'M7', 'M9']
    for mesh in meshes:
        nodes, faces = builders.mesh_library(mesh)
        n = len(faces)
        for with_edges in (False, True, 'face_face', 'all', 'fill0'):
            if with_edges in ('face_face', 'all', 'fill0') and n > 8 and tier == 'quick' and mesh != 'M7':
                continue
            if n <= 8 or tier == 'thorough':
                total = 2 ** n
                for start in range(0, total, CHUNK):
                    out.append({'part': 'M', 'mesh': mesh, 'edges': with_edges, 'start': start,
                                'stop': min(total, start + CHUNK)})
            else:
                out.append({'part': 'M', 'mesh': mesh, 'edges': with_edges, 'max_subset': 3})
    return out


# ---------------------------------------------------------------------------------------------- A


def palette(truth, polys):
    valid = [(n, p) for n, p in enumerate(polys) if p is not None]
    first_n, first = valid[0]
    last_n, last = valid[-1]
    mid_n, mid = valid[len(valid) // 2]
    union_bounds = shapely.unary_union([p for _, p in valid]).bounds
    minx, miny, maxx, maxy = union_bounds
    rp = first.representative_point()
    tiny = box(rp.x - 1 / 64, rp.y - 1 / 64, rp.x + 1 / 64, rp.y + 1 / 64)
    rl = last.representative_point()
    tiny_last = box(rl.x - 1 / 64, rl.y - 1 / 64, rl.x + 1 / 64, rl.y + 1 / 64)
    shared = None
    for _, p in valid:
        for c in p.exterior.coords:
            if len(ref.brute_hits(polys, Point(c))) >= 2:
                shared = Point(c)
                break
        if shared is not None:
            break
    everything = box(minx - 1, miny - 1, maxx + 1, maxy + 1)
    me = mid.envelope.bounds
    hole = box(me[0] - 1 / 32, me[1] - 1 / 32, me[2] + 1 / 32, me[3] + 1 / 32)
    ring = list(first.exterior.coords)
    geoms = {
        'tiny': tiny,
        'cell-envelope': first.envelope,
        'everything': everything,
        'touch-edge': box(minx - 1, miny, minx, maxy),
        'touch-corner': box(maxx, maxy, maxx + 1, maxy + 1),
        'line': LineString([(rp.x, rp.y), (rl.x, rl.y)]) if (rp.x, rp.y) != (rl.x, rl.y) else LineString([(rp.x, rp.y), (rp.x + 1 / 64, rp.y)]),
        'point': mid.representative_point(),
        'shared-vertex': shared if shared is not None else Point(ring[0]),
        'two-part': MultiPolygon([tiny, tiny_last]) if first_n != last_n else MultiPolygon([tiny]),
        'with-hole': Polygon(everything.exterior.coords, [hole.exterior.coords]),
        'far': box(maxx + 100, maxy + 100, maxx + 101, maxy + 101),
        'along-edge': LineString([ring[0], ring[1]]),
    }
    if shared is not None:
        # a line of slope 5/4 exactly through a shared vertex, long enough to leave the model on both sides
        reach = 4.0 * max(maxx - minx, maxy - miny)
        geoms['slanted-through-corner'] = LineString([(shared.x - 0.8 * reach, shared.y - reach), (shared.x + 0.8 * reach, shared.y + reach)])
        geoms['triangle-through-corner'] = Polygon([(shared.x - 0.8 * reach, shared.y - reach), (shared.x + 0.8 * reach, shared.y + reach),
                                                    (shared.x + 0.8 * reach, shared.y - reach)])
    shape = truth.kinds['face']['shape']
    if len(shape) == 2:
        row = [p for n, p in valid if n < shape[1]]
        if row:
            geoms['first-row'] = shapely.unary_union(row).envelope
    chains = [('tiny', 'cell-envelope'), ('cell-envelope', 'everything'), ('two-part', 'everything'), ('point', 'everything')]
    return geoms, chains


def grid_masks_reference(face_mask: np.ndarray):
    rows, cols = face_mask.shape
    left = np.zeros((rows, cols + 1), dtype=bool)
    back = np.zeros((rows + 1, cols), dtype=bool)
    node = np.zeros((rows + 1, cols + 1), dtype=bool)
    for j in range(rows):
        for i in range(cols):
            if face_mask[j, i]:
                left[j, i] = left[j, i + 1] = True
                back[j, i] = back[j + 1, i] = True
                node[j, i] = node[j, i + 1] = node[j + 1, i] = node[j + 1, i + 1] = True
    return left, back, node


def mesh_reference(truth, selected: set, edge_rows):
    """Expected new_*_index arrays: rank in original order, None when dropped."""
    faces = truth.faces
    nface, nnode = len(faces), len(truth.nodes)
    kept_faces = sorted(selected)
    kept_nodes = sorted({n for f in kept_faces for n in faces[f]})
    new_face = [kept_faces.index(f) if f in selected else None for f in range(nface)]
    new_node = [kept_nodes.index(n) if n in set(kept_nodes) else None for n in range(nnode)]
    new_edge = None
    if edge_rows is not None:
        kept_edges = sorted({e for f in kept_faces for e in edge_rows[f] if e is not None})
        nedge = 1 + max(e for row in edge_rows for e in row if e is not None)
        new_edge = [kept_edges.index(e) if e in set(kept_edges) else None for e in range(nedge)]
    return new_face, new_node, new_edge


def mask_column(mask_ds, name):
    values = mask_ds[name].values
    return [None if np.isnan(v) else int(v) for v in values]


def run_part_a(case, rec):
    ds, truth = builders.build(case['spec'])
    convention = ds.ems
    fp = f"C07/{truth.family}"
    polys = ref.ref_polygons(truth)
    geoms, chains = palette(truth, polys)
    shape = tuple(truth.kinds['face']['shape'])
    if len(polys) > 10:
        rec.nontrivial('more-than-10-cells')
    results = {}
    edge_rows = None
    if truth.family == 'ugrid' and truth.has_edges:
        from .c10 import masked_rows
        edge_rows = masked_rows(convention.topology.face_edge_array)

    for name, geom in geoms.items():
        hits = set(ref.brute_hits(polys, geom))
        touching_only = [n for n in hits if not polys[n].intersection(geom).area > 0]
        for buffer in BUFFERS:
            if touching_only or buffer >= 2:
                rec.nontrivial((name, buffer))
            label = f"make_clip_mask({name}, buffer={buffer})"
            try:
                mask = lib(convention.make_clip_mask, geom, buffer=buffer)
            except LibraryRaised as err:
                rec.check(False, f"{fp}/raised", label, 'mask', str(err))
                continue
            if truth.family == 'ugrid':
                selected = ref.node_ring_closure(truth.faces, hits, buffer)
                want_face, want_node, want_edge = mesh_reference(truth, selected, edge_rows)
                got_face = mask_column(mask, 'new_face_index')
                which = 'faces-buffered' if buffer else 'faces'
                if [v is not None for v in got_face] != [v is not None for v in want_face]:
                    rec.check(False, f"{fp}/{which}-selected", f"{label}: faces marked", want_face, got_face)
                else:
                    rec.check(got_face == want_face, f"{fp}/face-renumbering-order",
                              f"{label}: kept faces are not renumbered in their original order", want_face, got_face)
                rec.check(mask_column(mask, 'new_node_index') == want_node, f"{fp}/nodes", f"{label}: node renumbering",
                          want_node, mask_column(mask, 'new_node_index'))
                if want_edge is not None:
                    if 'new_edge_index' not in mask:
                        rec.check(False, f"{fp}/edges", f"{label}: no edge mask", want_edge, None)
                    else:
                        rec.check(mask_column(mask, 'new_edge_index') == want_edge, f"{fp}/edges",
                                  f"{label}: edge renumbering", want_edge, mask_column(mask, 'new_edge_index'))
                results[(name, buffer)] = {f for f, v in enumerate(got_face) if v is not None}
            else:
                marked = np.zeros(shape, dtype=bool)
                for n in hits:
                    marked[ref.row_major_unravel(n, shape)] = True
                want = ref.chebyshev_dilate(marked, buffer) if buffer else marked
                var = 'face_mask' if truth.family == 'shoc_standard' else 'cell_mask'
                got = np.asarray(mask[var].values, dtype=bool)
                ok = tuple(mask[var].dims) == tuple(truth.kinds['face']['dims']) and got.shape == want.shape
                which = 'cells-buffered' if buffer else 'cells'
                rec.check(ok and bool(np.array_equal(got, want)), f"{fp}/{which}-marked", f"{label}: cells marked",
                          want.astype(int), got.astype(int))
                if truth.family == 'shoc_standard' and ok:
                    left, back, node = grid_masks_reference(got)
                    for kind, want_k in (('left', left), ('back', back), ('node', node)):
                        got_k = np.asarray(mask[f'{kind}_mask'].values, dtype=bool)
                        okk = tuple(mask[f'{kind}_mask'].dims) == tuple(truth.kinds[kind]['dims'])
                        rec.check(okk and bool(np.array_equal(got_k, want_k)), f"{fp}/{kind}-mask",
                                  f"{label}: {kind} mask is not 'belongs to a marked cell'", want_k.astype(int), got_k.astype(int))
                results[(name, buffer)] = {int(i) for i in np.flatnonzero(got.ravel())}
    # enlarging the geometry or the buffer never unmarks a cell
    for name in geoms:
        for b in BUFFERS[:-1]:
            a, c = results.get((name, b)), results.get((name, b + 1))
            if a is not None and c is not None:
                rec.check(a <= c, f"{fp}/buffer-not-monotone", f"{name}: buffer {b + 1} unmarks cells of buffer {b}", sorted(a), sorted(c))
    for small, large in chains:
        for b in BUFFERS:
            a, c = results.get((small, b)), results.get((large, b))
            if a is not None and c is not None:
                rec.check(a <= c, f"{fp}/geometry-not-monotone", f"{large} unmarks cells of {small} at buffer {b}", sorted(a), sorted(c))
    rec.outcome([truth.family, shape, len(polys)])


# ---------------------------------------------------------------------------------------------- B


def run_part_b(case, rec):
    from emsarray import masking
    from emsarray.conventions.arakawa_c import ArakawaCGridKind, c_mask_from_centres
    rows, cols = case['rows'], case['cols']
    fp = "C07/primitive"
    dims = {
        ArakawaCGridKind.face: ('jf', 'if'), ArakawaCGridKind.left: ('jl', 'il'),
        ArakawaCGridKind.back: ('jb', 'ib'), ArakawaCGridKind.node: ('jn', 'in'),
    }
    for code in range(case['start'], case['stop']):
        bits = [(code >> k) & 1 for k in range(rows * cols)]
        arr = np.array(bits, dtype=bool).reshape(rows, cols)
        border = arr[0, :].any() or arr[-1, :].any() or arr[:, 0].any() or arr[:, -1].any()
        if border and 0 < code:
            rec.nontrivial(code)
        for size in (1, 2, 3):
            try:
                got = lib(masking.blur_mask, arr.copy(), size=size)
            except LibraryRaised as err:
                rec.check(False, f"{fp}/blur-raised", f"blur_mask size {size}", 'array', str(err))
                continue
            want = ref.chebyshev_dilate(arr, size)
            rec.check(got.shape == want.shape and bool(np.array_equal(np.asarray(got, dtype=bool), want)),
                      f"{fp}/blur-mask", f"blur_mask({arr.astype(int).tolist()}, size={size})", want.astype(int), np.asarray(got).astype(int))
        left, back, node = grid_masks_reference(arr)
        for pads, want, name in (([False, True], left, 'left'), ([True, False], back, 'back'), ([True, True], node, 'node')):
            try:
                got = lib(masking.smear_mask, arr.copy(), pads)
            except LibraryRaised as err:
                rec.check(False, f"{fp}/smear-raised", f"smear_mask {pads}", 'array', str(err))
                continue
            rec.check(got.shape == want.shape and bool(np.array_equal(np.asarray(got, dtype=bool), want)),
                      f"{fp}/smear-{name}", f"smear_mask({arr.astype(int).tolist()}, {pads})", want.astype(int), np.asarray(got).astype(int))
        try:
            full = lib(c_mask_from_centres, arr.copy(), dims)
            ok = True
            for kind, want in ((ArakawaCGridKind.face, arr), (ArakawaCGridKind.left, left),
                               (ArakawaCGridKind.back, back), (ArakawaCGridKind.node, node)):
                var = full[f'{kind.value}_mask']
                if tuple(var.dims) != dims[kind] or not np.array_equal(np.asarray(var.values, dtype=bool), want):
                    ok = False
            rec.check(ok, f"{fp}/c-mask-from-centres", f"c_mask_from_centres({arr.astype(int).tolist()})", 'masks by definition', 'mismatch')
        except LibraryRaised as err:
            rec.check(False, f"{fp}/c-mask-raised", "c_mask_from_centres", 'masks', str(err))
    rec.outcome([rows, cols])


# ---------------------------------------------------------------------------------------------- M


def run_part_m(case, rec):
    from emsarray.conventions.ugrid import buffer_faces, mask_from_face_indexes
    from .c10 import masked_rows
    spec = {'family': 'ugrid', 'mesh': case['mesh']}
    if case['edges'] is True:
        spec.update({'supplied': ['edge_node', 'face_edge'], 'start_index': 1, 'fill': 'fillattr'})
    elif case['edges'] == 'face_face':
        spec.update({'supplied': ['face_face'], 'fill': 'fillattr'})
    elif case['edges'] == 'all':
        spec.update({'supplied': list(builders.OPTIONAL_TABLES), 'start_index': 1})
    elif case['edges'] == 'fill0':
        # one-based integer tables whose "no node" marker is 0
        spec.update({'start_index': 1, 'fill': 'fillattr', 'fill_value': 0, 'supplied': ['edge_node']})
    ds, truth = builders.build(spec)
    topology = ds.ems.topology
    fp = "C07/mesh-primitive"
    nface = len(truth.faces)
    edge_rows = masked_rows(topology.face_edge_array) if case['edges'] in (True, 'all', 'fill0') else None
    if 'max_subset' in case:
        subsets = [set(c) for r in range(case['max_subset'] + 1) for c in itertools.combinations(range(nface), r)]
    else:
        subsets = [{f for f in range(nface) if (code >> f) & 1} for code in range(case['start'], case['stop'])]
    for selected in subsets:
        indexes = np.array(sorted(selected), dtype=np.int32)
        if len(selected) >= 1:
            rec.nontrivial(tuple(sorted(selected)))
        try:
            grown = lib(buffer_faces, indexes, topology)
            want = sorted(ref.node_ring_closure(truth.faces, selected, 1))
            rec.check([int(v) for v in grown] == want, f"{fp}/buffer-faces", f"buffer_faces({sorted(selected)})", want, [int(v) for v in grown])
        except LibraryRaised as err:
            rec.check(False, f"{fp}/buffer-faces-raised", f"buffer_faces({sorted(selected)})", 'faces', str(err))
        try:
            mask = lib(mask_from_face_indexes, indexes, topology)
        except LibraryRaised as err:
            rec.check(False, f"{fp}/mask-raised", f"mask_from_face_indexes({sorted(selected)})", 'mask', str(err))
            continue
        want_face, want_node, want_edge = mesh_reference(truth, selected, edge_rows)
        rec.check(mask_column(mask, 'new_face_index') == want_face, f"{fp}/faces", f"mask_from_face_indexes({sorted(selected)}): faces",
                  want_face, mask_column(mask, 'new_face_index'))
        rec.check(mask_column(mask, 'new_node_index') == want_node, f"{fp}/nodes", f"mask_from_face_indexes({sorted(selected)}): nodes",
                  want_node, mask_column(mask, 'new_node_index'))
        if want_edge is not None:
            got = mask_column(mask, 'new_edge_index') if 'new_edge_index' in mask else None
            rec.check(got == want_edge, f"{fp}/edges", f"mask_from_face_indexes({sorted(selected)}): edges", want_edge, got)
        else:
            rec.check('new_edge_index' not in mask, f"{fp}/edges", "edge mask on a mesh without an edge dimension", 'absent', 'present')
    rec.outcome([case['mesh'], case['edges']])


def _run_case_first_call(case):
    rec = Recorder()
    {'A': run_part_a, 'B': run_part_b, 'M': run_part_m}[case['part']](case, rec)
    return rec.result()


def cases(tier):
    # first calls on freshly built datasets, then operation sequences on one object (mc/sequences.py)
    return _cases_first_call(tier) + sequences.cases_for(PROPERTY, tier)


def run_case(case):
    if case.get('part') == 'sequence':
        rec = Recorder()
        sequences.run_case(PROPERTY, case, rec)
        return rec.result()
    return _run_case_first_call(case)
