"""C18 -- transects cover exactly the part of the path inside the model, in path order."""
from __future__ import annotations

import itertools

import numpy as np
import shapely
from shapely.geometry import LineString, Point

from .. import builders, ref, sequences
from ..runner import LibraryRaised, Recorder, lib

PROPERTY = 'C18'
TITLE = 'Transects cover exactly the part of the path inside the model, in path order'
RULE = (
    "One case per (dataset in {CF1D 3x4, CF2D skewed with a hole, SHOC standard with a dry block, mesh M4, "
    "mesh M7, mesh M8 with concave faces, CF1D 4x4 at 60N, SHOC standard at 72S}, first waypoint).  Every simple polyline of 2 or 3 distinct "
    "waypoints drawn from a per-dataset set of 8 (two cell interiors, a hole interior, a point on a shared "
    "edge, a shared vertex, three outside points on different sides) is executed: paths starting or "
    "ending inside or outside, crossing holes, leaving and re-entering, running along an edge, missing "
    "the model.  Oracle: each segment lies in its cell and on the path; linear index, native index and "
    "polygon name one cell; segments sorted by start distance with start <= end; the union of the "
    "segments' path intervals equals path ∩ union(cells) computed without the spatial index; for paths "
    "that do not run along a cell boundary the segment lengths add up to the measure of that set under "
    "the library's own metric, which is monotone along the path and equal to the summed WGS84 geodesic leg lengths (1e-6 relative); "
    "prepared data holds each segment's cell labels at every depth.  Non-trivial: paths with >= 2 inside "
    "intervals, touching a hole, or with 3 waypoints."
    ' Also: datasets at 60N and 72S, every 3-waypoint path again with a third ordinate, lazily loaded (dask) variables, column-major variables and variables with their dimensions stored in reverse.'
    " Also (operation sequences, mc/sequences.py): for 8 base datasets and every sequence `first [middle] query` over 36 operations (queries, in-place edits a user makes, transforms whose result is used next; quick length 2, thorough length 3, and for this property length 4 `first m1 m2 query` wherever m1 or m2 is an in-place edit) ending in one of this property's own queries, the answer on the one used object equals the answer on a never-used rebuild. Second phase: the first case of every distinct outcome and kind (thorough: every case, for expensive checks every kind) again with debug logging enabled, under numpy.errstate(all='ignore'), and in python -O child interpreters."
)
LEVEL_TEXT = ("all 2- and 3-waypoint simple polylines over 8 dataset-derived waypoints on 6 datasets: segment/cell identity, "
              "order, exact coverage of path ∩ cells, additive lengths, per-depth values")
LEVEL_NOTE = ("GEOS line/polygon intersection with 1e-9 tolerance on interval end points; cartopy's azimuthal-equidistant "
              "distance of a point from the projection centre is the geodesic distance (checked to 1e-6 relative against pyproj)")
ASSUMPTIONS = [
    "intersection end points are compared with tolerance 1e-9 degrees (GEOS creates new, non-dyadic vertices)",
    "paths along a cell boundary are exempt from the length sum only (both neighbours legitimately report the piece)",
]

DATASETS = [
    {'family': 'cf1d', 'ny': 3, 'nx': 4, 'bounds': 'var'},
    {'family': 'cf2d', 'ny': 3, 'nx': 3, 'geometry': 'skew', 'holes': 'interior'},
    {'family': 'shoc_standard', 'nj': 3, 'ni': 4, 'dry': 'corner'},
    {'family': 'ugrid', 'mesh': 'M4'},
    {'family': 'ugrid', 'mesh': 'M7'},
    {'family': 'ugrid', 'mesh': 'M8'},
    {'family': 'cf1d', 'ny': 4, 'nx': 4, 'bounds': 'var', 'lon0': 0.0, 'lat0': 60.0},
    {'family': 'shoc_standard', 'nj': 3, 'ni': 3, 'geometry': 'skew', 'lon0': 170.0, 'lat0': -72.0},
    # a 0..360 style grid reaching past 180E whose first cell lies across Greenwich (paths with negative longitudes)
    # (cell edges at -7.5, 17.5, 42.5 ... 192.5 and -10, 0, 10; the paths stay within a few cells of Greenwich)
    {'family': 'cf1d', 'ny': 2, 'nx': 8, 'lon0': 5.0, 'dx': 25.0, 'lat0': -5.0, 'dy': 10.0,
     'waypoints': [[5.0, -5.0], [30.0, 5.0], [-5.0, -2.0], [17.5, 4.0], [17.5, 0.0], [-8.25, 0.03125], [20.0, 10.5], [42.5, -10.375]]},
]
TOL = 1e-9


def bounds(tier):
    return {'datasets': len(DATASETS), 'waypoints': 8, 'polyline_lengths': [2, 3] if tier == 'thorough' else [2, '3 (from 5 of the 8 waypoints)']}


def _cases_first_call(tier):
    out = []
    for spec in DATASETS:
        for first in range(8):
            out.append({'spec': spec, 'first': first, 'tier': tier})
    return out


def waypoints(truth, polys, spec=None):
    if spec and spec.get('waypoints'):
        return [Point(x, y) for x, y in spec['waypoints']]
    valid = [(n, p) for n, p in enumerate(polys) if p is not None]
    first, last = valid[0][1], valid[-1][1]
    union = shapely.unary_union([p for _, p in valid])
    minx, miny, maxx, maxy = union.bounds
    pts = [first.representative_point(), last.representative_point()]
    holes = truth.get('hole_points') or []
    if holes:
        pts.append(Point(holes[0]))
    else:
        pts.append(valid[len(valid) // 2][1].representative_point())
    edge_mid = vertex = None
    for n, p in valid:
        ring = list(p.exterior.coords)
        for a, b in zip(ring[:-1], ring[1:]):
            mid = Point((a[0] + b[0]) / 2, (a[1] + b[1]) / 2)
            if edge_mid is None and len(ref.brute_hits(polys, mid)) >= 2:
                edge_mid = mid
            if vertex is None and len(ref.brute_hits(polys, Point(a))) >= 3:
                vertex = Point(a)
    if vertex is None:
        for n, p in valid:
            for a in p.exterior.coords:
                if len(ref.brute_hits(polys, Point(a))) >= 2:
                    vertex = Point(a)
                    break
            if vertex is not None:
                break
    pts.append(edge_mid if edge_mid is not None else Point((minx + maxx) / 2, (miny + maxy) / 2))
    pts.append(vertex if vertex is not None else first.representative_point())
    pts += [Point(minx - 0.75, (miny + maxy) / 2 + 0.03125), Point((minx + maxx) / 2 + 0.0625, maxy + 0.5), Point(maxx + 0.625, miny - 0.375)]
    # distinct
    out = []
    for p in pts:
        if all(p.distance(q) > 1e-6 for q in out):
            out.append(p)
    return out


def merge(intervals):
    intervals = sorted((min(a, b), max(a, b)) for a, b in intervals)
    out = []
    for a, b in intervals:
        if out and a <= out[-1][1] + TOL:
            out[-1][1] = max(out[-1][1], b)
        else:
            out.append([a, b])
    return [(a, b) for a, b in out if b - a > TOL]


def line_pieces(geometry):
    if geometry.is_empty:
        return []
    if isinstance(geometry, LineString):
        return [geometry]
    if hasattr(geometry, 'geoms'):
        return [g for part in geometry.geoms for g in line_pieces(part)]
    return []


def reference_intervals(line, polys):
    intervals = []
    for p in polys:
        if p is None or not p.intersects(line):
            continue
        for piece in line_pieces(p.intersection(line)):
            if piece.length <= TOL:
                continue
            # a piece may cover several legs of the path; project all of its vertices
            params = [line.project(Point(c)) for c in piece.coords]
            intervals.append((min(params), max(params)))
    return merge(intervals)


def _run_case_first_call(case):
    rec = Recorder()
    from emsarray.transect import Transect
    import pyproj
    geod = pyproj.Geod(ellps='WGS84')
    ds, truth = builders.build(case['spec'])
    convention = ds.ems
    fp = f"C18/{truth.family}"
    polys = ref.ref_polygons(truth)
    own = list(convention.polygons)
    pts = waypoints(truth, polys, case['spec'])
    if case['first'] >= len(pts):
        rec.nontrivial('none')
        rec.nontrivial('none2')
        return rec.result()
    boundaries = shapely.unary_union([p.exterior for p in polys if p is not None])
    depth_name = [n for n in truth.depth_names if ds[n].dims == (truth.depth_dim,)][0]
    face_shape = tuple(truth.kinds['face']['shape'])
    temp = truth.vars['temp']
    labels = ref.expected_values(temp, len(polys), truth.shift)

    third_choices = range(len(pts)) if case.get('tier') == 'thorough' else range(min(5, len(pts)))
    paths = []
    a = case['first']
    for b in range(len(pts)):
        if b == a:
            continue
        paths.append((a, b))
        for c in third_choices:
            if c not in (a, b):
                paths.append((a, b, c))
    outcomes = {'segments': 0, 'empty': 0}
    for path in paths:
        line = LineString([(pts[k].x, pts[k].y) for k in path])
        if not line.is_simple or line.length <= 0:
            continue
        label = f"path {[(pts[k].x, pts[k].y) for k in path]}"
        try:
            transect = lib(Transect, ds, line, depth=depth_name)
            segments = lib(lambda: transect.segments)
        except LibraryRaised as err:
            rec.check(False, f"{fp}/raised", f"{label}: Transect raised", 'segments', str(err))
            continue
        want = reference_intervals(line, polys)
        if len(want) >= 2 or len(path) == 3 or (truth.get('hole_points') and any(Point(h).distance(line) < 1e-9 for h in truth['hole_points'])):
            rec.nontrivial(path)
        outcomes['segments' if segments else 'empty'] += 1

        got_intervals = []
        ok_identity = True
        previous = None
        for s in segments:
            n = int(s.linear_index)
            ok = 0 <= n < len(polys) and polys[n] is not None and s.polygon is not None and s.polygon.equals(polys[n]) \
                and tuple(s.index) == tuple(builders.native_index(truth, 'face', ref.row_major_unravel(n, face_shape)))
            if not ok:
                ok_identity = rec.check(False, f"{fp}/segment-identity", f"{label}: linear index, native index and polygon of a segment disagree",
                                        n, [s.index, None if s.polygon is None else s.polygon.wkt[:80]])
                break
            inside = polys[n].buffer(1e-9).covers(s.intersection) and line.buffer(1e-9).covers(s.intersection)
            if not rec.check(bool(inside), f"{fp}/segment-outside-cell", f"{label}: a segment is not inside its cell / on the path",
                             polys[n].wkt[:100], s.intersection.wkt[:200]):
                ok_identity = False
                break
            rec.check(s.start_distance <= s.end_distance, f"{fp}/start-after-end", f"{label}: start after end", 'start <= end',
                      [s.start_distance, s.end_distance])
            if previous is not None:
                rec.check(previous <= s.start_distance + 1e-6, f"{fp}/not-in-path-order", f"{label}: segments not ordered by start distance",
                          'non-decreasing', [previous, s.start_distance])
            previous = s.start_distance
            params = [line.project(Point(c)) for c in s.intersection.coords]
            got_intervals.append((min(params), max(params)))
        if not ok_identity:
            continue
        got = merge(got_intervals)
        same = len(got) == len(want) and all(abs(a0 - b0) <= 1e-7 and abs(a1 - b1) <= 1e-7 for (a0, a1), (b0, b1) in zip(got, want))
        rec.check(same, f"{fp}/coverage", f"{label}: union of the segments is not path ∩ cells", want, got)

        # distances: monotone, close to the geodesic, additive
        try:
            probes = [line.interpolate(f, normalized=True) for f in (0, 0.125, 0.25, 0.5, 0.625, 0.75, 1.0)]
            distances = [lib(transect.distance_along_line, p) for p in probes]
            rec.check(all(x <= y + 1e-6 for x, y in zip(distances, distances[1:])), f"{fp}/distance-not-monotone",
                      f"{label}: distance along the path is not monotone", 'increasing', distances)
            geodesic = 0.0
            coords = list(line.coords)
            for (x0, y0), (x1, y1) in zip(coords[:-1], coords[1:]):
                geodesic += geod.inv(x0, y0, x1, y1)[2]
            rec.check(abs(distances[-1] - geodesic) <= 1e-6 * geodesic + 1e-3, f"{fp}/distance-not-geodesic",
                      f"{label}: length of the path", geodesic, distances[-1])
            along_boundary = any(line_pieces(boundaries.intersection(line)) and piece.length > 1e-9
                                 for piece in line_pieces(boundaries.intersection(line)))
            if same and not along_boundary:
                total = sum(s.end_distance - s.start_distance for s in segments)
                expected = 0.0
                for a0, a1 in want:
                    expected += lib(transect.distance_along_line, line.interpolate(a1)) - lib(transect.distance_along_line, line.interpolate(a0))
                rec.check(abs(total - expected) <= 1e-6 * max(1.0, expected) + 1e-3, f"{fp}/lengths-do-not-add-up",
                          f"{label}: summed segment lengths vs length of the path inside the model", expected, total)
        except LibraryRaised as err:
            rec.check(False, f"{fp}/distance-raised", f"{label}: distance_along_line raised", 'distance', str(err))

        # the same path given with a third ordinate (a glider track with depths): the horizontal answer is the same
        if len(path) == 3 and segments:
            try:
                line3 = LineString([(pts[k].x, pts[k].y, 100.0 * (n + 1) ** 2) for n, k in enumerate(path)])
                segments3 = lib(lambda: Transect(ds, line3, depth=depth_name).segments)
                same3 = len(segments3) == len(segments) and all(
                    int(a.linear_index) == int(b.linear_index) and abs(a.start_distance - b.start_distance) < 1e-6
                    and abs(a.end_distance - b.end_distance) < 1e-6 for a, b in zip(segments3, segments))
                rec.check(same3, f"{fp}/third-ordinate", f"{label}: the path with z values gives other segments",
                          [(int(s.linear_index), round(s.start_distance, 3)) for s in segments][:6],
                          [(int(s.linear_index), round(s.start_distance, 3)) for s in segments3][:6])
            except LibraryRaised as err:
                rec.check(False, f"{fp}/third-ordinate", f"{label}: a path with z values raised", 'segments', str(err))

        # data prepared for plotting
        try:
            tds = lib(lambda: transect.transect_dataset)
            linear = [int(v) for v in tds['linear_index'].values]
            rec.check(linear == [int(s.linear_index) for s in segments], f"{fp}/linear-index-misaligned",
                      f"{label}: transect_dataset.linear_index vs segments", [int(s.linear_index) for s in segments], linear)
            bounds_ = tds['distance_bounds'].values
            rec.check(bounds_.shape == (len(segments), 2) and all(
                bounds_[k][0] == segments[k].start_distance and bounds_[k][1] == segments[k].end_distance for k in range(len(segments))),
                f"{fp}/distance-bounds", f"{label}: distance bounds vs segments", len(segments), bounds_.shape)
            if segments:
                prepared = lib(transect.prepare_data_array_for_transect, ds['temp'])
                values = prepared.transpose(truth.time_dim, truth.depth_dim, prepared.dims[-1]).values
                want_values = labels[:, :, [int(s.linear_index) for s in segments]]
                rec.check(ref.same_values(values, want_values), f"{fp}/values-not-of-segment-cell",
                          f"{label}: prepared data does not hold each segment's cell values at every depth", want_values[0, :, :4], values[0, :, :4])
                if len(segments) >= 2:
                    # the same variable held column-major, and with its dimensions stored in the reverse order
                    temp = ds['temp']
                    layouts = {
                        'column-major': temp.copy(data=np.asfortranarray(temp.values)),
                        'reversed-dimensions': temp.transpose(*reversed(temp.dims)).copy(deep=True),
                    }
                    for layout, variable in layouts.items():
                        other = lib(transect.prepare_data_array_for_transect, variable)
                        other_values = other.transpose(truth.time_dim, truth.depth_dim, other.dims[-1]).values
                        rec.check(ref.same_values(other_values, want_values), f"{fp}/values-not-of-segment-cell",
                                  f"{label}: prepared data of a {layout} variable", want_values[0, :, :4], other_values[0, :, :4])
                # other arrays with the same name, dimensions and shape, through the same Transect object
                doubled = lib(transect.prepare_data_array_for_transect, ds['temp'] * 2)
                doubled_values = doubled.transpose(truth.time_dim, truth.depth_dim, doubled.dims[-1]).values
                rec.check(ref.same_values(doubled_values, want_values * 2), f"{fp}/values-not-of-segment-cell",
                          f"{label}: prepared data of a second array with the same name and shape", (want_values * 2)[0, :, :4], doubled_values[0, :, :4])
                # a range of time steps of the variable (another length of the time dimension than the dataset's)
                part = lib(transect.prepare_data_array_for_transect, ds['temp'].isel({truth.time_dim: slice(1, 2)}))
                part_values = part.transpose(truth.time_dim, truth.depth_dim, part.dims[-1]).values
                rec.check(ref.same_values(part_values, want_values[1:2]), f"{fp}/values-not-of-segment-cell",
                          f"{label}: prepared data of a range of time steps", want_values[1:2][0, :, :4], part_values[0, :, :4])
                if len(segments) >= 3:
                    lazy = lib(transect.prepare_data_array_for_transect, ds['temp'].chunk())
                    lazy_values = lazy.transpose(truth.time_dim, truth.depth_dim, lazy.dims[-1]).values
                    rec.check(ref.same_values(lazy_values, want_values), f"{fp}/values-not-of-segment-cell",
                              f"{label}: prepared data of a lazily loaded (dask) variable", want_values[0, :, :4], lazy_values[0, :, :4])
        except LibraryRaised as err:
            rec.check(False, f"{fp}/dataset-raised", f"{label}: transect_dataset / prepare raised", 'dataset', str(err))
    rec.outcome([truth.family, case['first'], outcomes])
    return rec.result()


def cases(tier):
    # first calls on freshly built datasets, then operation sequences on one object (mc/sequences.py)
    return _cases_first_call(tier) + sequences.cases_for(PROPERTY, tier)


def run_case(case):
    if case.get('part') == 'sequence':
        rec = Recorder()
        sequences.run_case(PROPERTY, case, rec)
        return rec.result()
    return _run_case_first_call(case)
