"""C03 -- flattening and winding variables are exact inverses."""
from __future__ import annotations

import itertools

import numpy as np
import xarray as xr

from .. import builders, ref, sequences
from ..runner import LibraryRaised, Recorder, lib

PROPERTY = 'C03'
TITLE = 'Flattening and winding variables are exact inverses'
RULE = (
    "One case per (dataset, grid kind, number of extra dimensions 0..3).  Inside: every permutation of "
    "the variable's dimension order x {ravel default name, custom name, name colliding with a grid "
    "dimension, 'index' already taken} x wind by {default last position, axis=k, linear_dimension=name} "
    "x linear data with the linear dimension at every position.  Reference = numpy.moveaxis + reshape.  "
    "Non-trivial: permutations where the grid dimensions are not the trailing dimensions in "
    "convention order, non-default kinds, name collisions."
    ' Also: slices of dataset variables (extra dimensions named like dataset dimensions but of another length) and datasets with reversed dimension declaration.'
    " Datasets also arrive with a history: warmed convention, copy, deep copy, pickle, netCDF round trip, fully chunked (dask), and hand-built conventions for coordinates autodetection would not pick (decoy pair), after warm / pickle. Also (operation sequences, mc/sequences.py): for 8 base datasets and every sequence `first [middle] query` over 36 operations (queries, in-place edits a user makes, transforms whose result is used next; quick length 2, thorough length 3) ending in one of this property's own queries, the answer on the one used object equals the answer on a never-used rebuild. Second phase: the first case of every distinct outcome and kind (thorough: every case, for expensive checks every kind) again with debug logging enabled, under numpy.errstate(all='ignore'), and in python -O child interpreters."
)
LEVEL_TEXT = ('every permutation of 0..3 extra dimensions with the grid dimensions of every grid kind, every wind mode (default/axis/name) and linear-dimension naming case, both round-trip directions, against numpy.moveaxis+reshape')
LEVEL_NOTE = ('numpy/xarray transposition semantics; names colliding with a remaining dimension may be refused')
ASSUMPTIONS = [
    "a linear-dimension name that collides with a remaining dimension cannot be represented: an "
    "exception is accepted there, a completed round trip with different values is not (DESIGN 6)",
]

EXTRA = [('a', 2), ('b', 3), ('c', 2)]


def bounds(tier):
    return {'extra_dims': '0..3 of sizes 2,3,2 in every permutation (up to 5! orders)',
            'datasets': [repr(s) for s in datasets(tier)]}


def datasets(tier):
    specs = [
        {'family': 'cf1d', 'ny': 2, 'nx': 3},
        {'family': 'cf2d', 'ny': 3, 'nx': 2, 'geometry': 'skew'},
        {'family': 'shoc_simple', 'ny': 2, 'nx': 2},
        {'family': 'shoc_standard', 'nj': 2, 'ni': 3},
        {'family': 'ugrid', 'mesh': 'M4', 'supplied': ['edge_node']},
        {'family': 'cf1d', 'ny': 2, 'nx': 3, 'declare_reversed': True},
        {'family': 'shoc_standard', 'nj': 3, 'ni': 2, 'declare_reversed': True},
        {'family': 'ugrid', 'mesh': 'M11'},
        # the topology names an edge dimension that no variable carries (edges are only implied)
        {'family': 'ugrid', 'mesh': 'M4', 'edge_dim': 'declared'},
    ]
    specs += builders.history_specs(tier)
    if tier == 'thorough':
        specs += [
            {'family': 'cf1d', 'ny': 1, 'nx': 4, 'bounds': 'var'},
            {'family': 'cf2d', 'ny': 4, 'nx': 1},
            {'family': 'shoc_standard', 'nj': 3, 'ni': 1},
            {'family': 'shoc_standard', 'nj': 1, 'ni': 1},
            {'family': 'ugrid', 'mesh': 'M7'},
            {'family': 'ugrid', 'mesh': 'M1', 'supplied': ['edge_node', 'edge_face'], 'edge_dim': 'implied'},
        ]
    return specs


def _cases_first_call(tier):
    out = []
    for spec in datasets(tier):
        _, truth = builders.build(spec)
        for kind in truth.kinds:
            for extras in range(4):
                out.append({'spec': spec, 'kind': kind, 'extras': extras})
            if not spec.get('history'):
                out.append({'spec': spec, 'kind': kind, 'extras': 'empty'})
                out.append({'spec': spec, 'kind': kind, 'extras': 'long'})
    return out


def labelled(dims, sizes):
    shape = tuple(sizes[d] for d in dims)
    return xr.DataArray(np.arange(int(np.prod(shape)), dtype='float64').reshape(shape) + 1, dims=dims)


def _run_case_first_call(case):
    rec = Recorder()
    ds, truth = builders.build(case['spec'])
    convention = ds.ems
    kind = case['kind']
    info = truth.kinds[kind]
    grid_dims = tuple(info['dims'])
    grid_shape = tuple(info['shape'])
    ncell = int(np.prod(grid_shape))
    kind_obj = builders.grid_kind_object(truth, kind)
    default_kind = kind == truth.default_kind
    fp = f"C03/{truth.family}/{kind}"
    # 'empty': a dimension of length zero next to the grid (a time axis with no records yet)
    # 'long': a thousand records (longer than any slab or buffer size one would pick)
    extras = [('a', 2), ('z', 0)] if case['extras'] == 'empty' else [('t', 1000)] if case['extras'] == 'long' else EXTRA[:case['extras']]
    sizes = {**{d: s for d, s in zip(grid_dims, grid_shape)}, **dict(extras)}
    extra_names = tuple(n for n, _ in extras)
    if not default_kind:
        rec.nontrivial('non-default-kind')

    def wind(data, **kwargs):
        if not default_kind or kwargs.pop('force_kind', False):
            kwargs['grid_kind'] = kind_obj
        return lib(convention.wind, data, **kwargs)

    for order in itertools.permutations(extra_names + grid_dims):
        x = labelled(order, sizes)
        rest = tuple(d for d in order if d not in grid_dims)
        trailing = tuple(order[len(order) - len(grid_dims):]) == grid_dims
        if not trailing:
            rec.nontrivial(order)
        want_flat, want_rest = ref.ref_ravel(x, grid_dims)
        want_wound = x.transpose(*rest, *grid_dims)

        for linear_name, label in ((None, 'default'), ('lin', 'custom'), (grid_dims[-1], 'grid-collision')):
            kwargs = {} if linear_name is None else {'linear_dimension': linear_name}
            expected_name = 'index' if linear_name is None else linear_name
            try:
                flat = lib(convention.ravel, x, **kwargs)
            except LibraryRaised as err:
                rec.check(False, f"{fp}/ravel-raised", f"ravel dims={order} name={label}", 'flattened', str(err))
                continue
            good = rec.check(tuple(flat.dims) == rest + (expected_name,), f"{fp}/ravel-dims",
                             f"ravel dims={order} name={label}", rest + (expected_name,), flat.dims)
            good = good and rec.check(ref.same_values(flat.values, want_flat), f"{fp}/ravel-values",
                                      f"ravel dims={order} name={label}: values moved wrongly",
                                      want_flat.ravel()[:8], flat.values.ravel()[:8])
            if not good:
                continue
            # wind back: default (last), by axis, by name
            variants = [('last', {}), ('axis', {'axis': len(rest)}), ('name', {'linear_dimension': expected_name}),
                        ('numpy-axis', {'axis': np.int64(len(rest))}), ('numpy-axis', {'axis': np.intp(len(rest))})]
            if linear_name is not None:
                variants.append(('neg-axis', {'axis': -1}))
            for vlabel, vkwargs in variants:
                try:
                    wound = wind(flat, **vkwargs)
                except LibraryRaised as err:
                    rec.check(False, f"{fp}/wind-raised", f"wind({vlabel}) after ravel dims={order}", 'wound', str(err))
                    continue
                rec.check(tuple(wound.dims) == tuple(want_wound.dims), f"{fp}/wind-dims",
                          f"wind({vlabel}) after ravel dims={order}", want_wound.dims, wound.dims)
                if tuple(wound.dims) == tuple(want_wound.dims):
                    rec.check(ref.same_values(wound.values, want_wound.values), f"{fp}/roundtrip-values",
                              f"wind({vlabel})(ravel(x)) != x for dims={order}",
                              want_wound.values.ravel()[:8], wound.values.ravel()[:8])

    # 'index' is already taken by an extra dimension: the default name must avoid it
    if extras:
        renamed = ('index',) + extra_names[1:]
        sizes2 = {**sizes, 'index': sizes[extra_names[0]]}
        x = labelled(renamed + grid_dims, sizes2)
        rec.nontrivial('index-taken')
        try:
            flat = lib(convention.ravel, x)
            want_flat, _ = ref.ref_ravel(x, grid_dims)
            ok = rec.check(len(set(flat.dims)) == len(flat.dims) and tuple(flat.dims[:-1]) == renamed
                           and ref.same_values(flat.values, want_flat),
                           f"{fp}/index-name-taken", "ravel when 'index' is an existing dimension",
                           renamed + ('<unused name>',), flat.dims)
            if ok:
                wound = wind(flat)
                rec.check(tuple(wound.dims) == renamed + grid_dims and ref.same_values(wound.values, x.values),
                          f"{fp}/index-name-taken", "wind(ravel(x)) when 'index' is an existing dimension",
                          renamed + grid_dims, wound.dims)
        except LibraryRaised as err:
            rec.check(False, f"{fp}/index-name-taken", "ravel/wind raised", 'round trip', str(err))
        # a name colliding with a *remaining* dimension: refusal accepted, wrong values are not
        x = labelled(extra_names + grid_dims, sizes)
        try:
            flat = lib(convention.ravel, x, linear_dimension=extra_names[0])
            wound = wind(flat, linear_dimension=extra_names[0])
            rec.check(tuple(wound.dims) == extra_names + grid_dims and ref.same_values(wound.values, x.values),
                      f"{fp}/remaining-name-collision", "round trip completed with different values",
                      'refusal or identity', wound.dims)
        except (LibraryRaised, ValueError):
            rec.step()

    # arbitrary linear data, linear dimension at every position
    for order in itertools.permutations(extra_names):
        for position in range(len(order) + 1):
            dims = order[:position] + ('index',) + order[position:]
            y = labelled(dims, {**sizes, 'index': ncell})
            want_dims = order[:position] + grid_dims + order[position:]
            want_shape = tuple({**sizes}[d] for d in want_dims)
            want = y.values.reshape(want_shape)
            variants = [('axis', {'axis': position}), ('name', {'linear_dimension': 'index'}), ('numpy-axis', {'axis': np.int32(position)})]
            if position == len(order):
                variants.append(('last', {}))
            else:
                rec.nontrivial(('linear-not-last', dims))
            for vlabel, vkwargs in variants:
                try:
                    wound = wind(y, **vkwargs)
                except LibraryRaised as err:
                    rec.check(False, f"{fp}/wind-raised", f"wind({vlabel}) of linear data dims={dims}", 'wound', str(err))
                    continue
                ok = rec.check(tuple(wound.dims) == want_dims and ref.same_values(wound.values, want),
                               f"{fp}/wind-linear", f"wind({vlabel}) of linear data dims={dims}", want_dims, wound.dims)
                if not ok:
                    continue
                try:
                    back = lib(convention.ravel, wound)
                except LibraryRaised as err:
                    rec.check(False, f"{fp}/ravel-raised", f"ravel(wind(y)) dims={dims}", 'flattened', str(err))
                    continue
                want_back = y.transpose(*order, 'index')
                rec.check(tuple(back.dims) == tuple(want_back.dims) and ref.same_values(back.values, want_back.values),
                          f"{fp}/ravel-of-wind", f"ravel(wind({vlabel})(y)) != y for dims={dims}",
                          want_back.dims, back.dims)

    # a slice of a dataset variable: the extra dimensions carry the dataset's own names but other lengths
    if case['extras'] in (1, 2):
        rec.nontrivial('sliced-variable')
        named = (truth.time_dim, truth.depth_dim)[:case['extras']]
        sizes3 = {**{d: s for d, s in zip(grid_dims, grid_shape)}, truth.time_dim: ds.sizes[truth.time_dim] + 1, truth.depth_dim: 1}
        for order in itertools.permutations(named + grid_dims):
            x = labelled(order, sizes3)
            rest = tuple(d for d in order if d not in grid_dims)
            try:
                flat = lib(convention.ravel, x)
                want_flat, _ = ref.ref_ravel(x, grid_dims)
                ok = rec.check(tuple(flat.dims[:-1]) == rest and ref.same_values(flat.values, want_flat), f"{fp}/sliced-variable",
                               f"ravel of a variable with dims {order} whose {named} differ in length from the dataset", rest, flat.dims)
                if ok:
                    wound = wind(flat)
                    rec.check(tuple(wound.dims) == rest + grid_dims and ref.same_values(wound.values, x.transpose(*rest, *grid_dims).values),
                              f"{fp}/sliced-variable", f"wind(ravel(x)) for dims {order}", rest + grid_dims, wound.dims)
            except LibraryRaised as err:
                rec.check(False, f"{fp}/sliced-variable", f"ravel/wind refused a slice of a variable, dims {order}", 'round trip', str(err))

    # variables that are on no grid are refused
    if case['extras'] == 0:
        off_grid = [xr.DataArray(1.0), xr.DataArray(np.arange(2.0), dims=['a']),
                    xr.DataArray(np.zeros((2, 3)), dims=['a', 'b'])]
        if len(grid_dims) == 2:
            off_grid.append(xr.DataArray(np.zeros((grid_shape[0], 2)), dims=[grid_dims[0], 'a']))
            off_grid.append(xr.DataArray(np.zeros(grid_shape[1]), dims=[grid_dims[1]]))
        for array in off_grid:
            try:
                got = lib(convention.ravel, array)
                rec.check(False, f"{fp}/off-grid-accepted", f"ravel of a variable with dims {array.dims} did not raise", 'error', got.dims)
            except LibraryRaised:
                rec.step()
        rec.nontrivial('off-grid')

    rec.outcome([truth.family, kind, case['extras']])
    return rec.result()


def cases(tier):
    # first calls on freshly built datasets, then operation sequences on one object (mc/sequences.py)
    return _cases_first_call(tier) + sequences.cases_for(PROPERTY, tier)


def run_case(case):
    if case.get('part') == 'sequence':
        rec = Recorder()
        sequences.run_case(PROPERTY, case, rec)
        return rec.result()
    return _run_case_first_call(case)
