"""C15 -- geometry export round-trips every cell with its indexes."""
from __future__ import annotations

import itertools
import json
import os
import pathlib

import shapely

from .. import builders, env, ref
from ..runner import LibraryRaised, Recorder, lib

PROPERTY = 'C15'
TITLE = 'Geometry export round-trips every cell with its indexes'
RULE = (
    "One case per (dataset of the family list, format in {geojson, shapefile, wkt, wkb}).  The file is "
    "read back with an independent reader (json, pyshp Reader, shapely.from_wkt/from_wkb): features == "
    "cells with polygons, in linear order, identical coordinate sequences; GeoJSON/Shapefile records "
    "carry the linear index and a native index that converts back to the same cell.  Non-trivial: "
    "datasets with holes or with native indexes that carry a grid kind."
    ' Also: one CF grid above 10^4 (thorough 10^5) cells, SHOC grids whose native index text exceeds 16 characters, datasets across the antimeridian; every sequence of face sizes in {3,4,5,6}^<=4 (thorough <=5) as a strip of convex faces; coordinates with more than six decimals (near-uniform axes); output named by absolute string, pathlib.Path, bare file name in the current directory, relative path.'
    " Datasets also arrive with a history: warmed convention, copy, deep copy, pickle, netCDF round trip, fully chunked (dask), and hand-built conventions for coordinates autodetection would not pick (decoy pair), after warm / pickle. Second phase: the first case of every distinct outcome and kind (thorough: every case, for expensive checks every kind) again with debug logging enabled, under numpy.errstate(all='ignore'), and in python -O child interpreters."
)
LEVEL_TEXT = ("every dataset of the family list (holes, multi-kind native indexes, >10 cells) x 4 formats, read back "
              "with independent readers and compared cell by cell with the reference polygons and indexes")
LEVEL_NOTE = "json / pyshp Reader / shapely WKT-WKB readers are trusted; coordinates are dyadic so text round-trips are exact"
ASSUMPTIONS = ["pyshp's Reader and shapely's WKT/WKB readers are the consumer-side ground truth"]

FORMATS = ('geojson', 'shapefile', 'wkt', 'wkb')
# how the caller names the output: absolute string, pathlib.Path, bare name in the current directory, relative with a directory
PATH_FORMS = ('absolute', 'pathlib', 'bare', 'relative')
# convex lattice polygons by vertex count, each inside [0, 3] x [0, 2]
CONVEX = {
    3: [(0, 0), (2, 0), (0, 2)],
    4: [(0, 0), (2, 0), (2, 2), (0, 2)],
    5: [(0, 0), (2, 0), (3, 1), (2, 2), (0, 2)],
    6: [(1, 0), (2, 0), (3, 1), (2, 2), (1, 2), (0, 1)],
}


def strip_mesh(sizes, scale=1.0):
    """Disjoint faces with the given vertex counts, left to right."""
    nodes, faces = [], []
    for k, size in enumerate(sizes):
        faces.append(list(range(len(nodes), len(nodes) + size)))
        nodes.extend((float(x + 4 * k) * scale, float(y) * scale - scale / 7) for x, y in CONVEX[size])
    return nodes, faces


def bounds(tier):
    return {'datasets': 'builders.family_specs(tier)', 'formats': list(FORMATS)}


def cases(tier):
    out = []
    for spec in builders.family_specs(tier):
        if spec['family'] == 'cf2d' and spec.get('bounds') == 'derived' and spec.get('holes', 'none') != 'none':
            continue
        for fmt in FORMATS:
            out.append({'spec': spec, 'format': fmt})
    # more than 10^4 (quick) / 10^5 (thorough) cells: the width of index fields in attribute tables
    big = [{'family': 'cf1d', 'ny': 101, 'nx': 100, 'bounds': 'var', 'nt': 1, 'nk': 1},
           # exactly 4096 and 8192 cells with polygons (whole batches)
           {'family': 'cf1d', 'ny': 64, 'nx': 64, 'bounds': 'var', 'nt': 1, 'nk': 1},
           {'family': 'cf2d', 'ny': 64, 'nx': 128, 'nt': 1, 'nk': 1},
           # native indexes such as ["face", 103, 11]: long text in the attribute table
           {'family': 'shoc_standard', 'nj': 104, 'ni': 12, 'dry': 'corner', 'nt': 1, 'nk': 1}]
    if tier == 'thorough':
        big.append({'family': 'cf1d', 'ny': 320, 'nx': 315, 'nt': 1, 'nk': 1})
        big.append({'family': 'shoc_standard', 'nj': 1002, 'ni': 3, 'nt': 1, 'nk': 1})
        nodes, faces = builders._lattice_mesh(101, 100)
        big.append({'family': 'ugrid', 'mesh': 'lattice-101x100', 'nodes': nodes, 'faces': faces, 'nt': 1, 'nk': 1})
    for spec in big:
        for fmt in ('shapefile', 'geojson'):
            out.append({'spec': spec, 'format': fmt})
    # every sequence of face sizes in {3,4,5,6}^<=4 (thorough <=5): meshes whose mean size equals the first size, etc.
    longest = 4 if tier == 'quick' else 5
    for length in range(1, longest + 1):
        for sizes in itertools.product((3, 4, 5, 6), repeat=length):
            nodes, faces = strip_mesh(sizes)
            spec = {'family': 'ugrid', 'mesh': 'strip-' + ''.join(map(str, sizes)), 'nodes': nodes, 'faces': faces, 'nt': 1, 'nk': 1}
            for fmt in (FORMATS if length <= 3 else ('geojson',)):
                out.append({'spec': spec, 'format': fmt})
    # coordinates that are not short decimal or binary fractions, well below one degree (text formats must not round them)
    for scale in (1 / 300, 1e-7 / 3, 1 / 3):
        for length in (1, 2):
            for sizes in itertools.product((3, 4, 5, 6), repeat=length):
                nodes, faces = strip_mesh(sizes, scale)
                spec = {'family': 'ugrid', 'mesh': f'strip-{scale:.3g}-' + ''.join(map(str, sizes)), 'nodes': nodes, 'faces': faces, 'nt': 1, 'nk': 1}
                for fmt in FORMATS:
                    out.append({'spec': spec, 'format': fmt, 'fine': True})
    # the way the output file is named
    for spec in ({'family': 'cf1d', 'ny': 2, 'nx': 3}, {'family': 'ugrid', 'mesh': 'M4'}):
        for fmt in FORMATS:
            for form in PATH_FORMS[1:]:
                out.append({'spec': spec, 'format': fmt, 'path_form': form})
    return out


def ring_list(polygon):
    return [[float(v) for v in c] for c in polygon.exterior.coords]


def native_from_json(truth, value):
    """Convert the JSON form of a native index back to a native index."""
    if truth.family in ('cf1d', 'cf2d', 'shoc_simple'):
        return tuple(int(v) for v in value)
    kind = value[0]
    return builders.native_index(truth, kind, tuple(int(v) for v in value[1:]))


def run_case(case):
    rec = Recorder()
    ds, truth = builders.build(case['spec'])
    fmt = case['format']
    fp = f"C15/{truth.family}/{fmt}"
    convention = ds.ems
    from emsarray.operations import geometry

    polys = ref.ref_polygons(truth)
    if any(isinstance(p, str) for p in polys):
        return rec.result()
    # "identical coordinates": the exported sequence is the dataset's own polygon (whose faithfulness to
    # the coordinates is C06's business); which cells exist and what they cover comes from the reference
    own = convention.polygons
    cells = []
    for n, p in enumerate(polys):
        if p is None:
            continue
        if own[n] is None or not own[n].equals(p):
            rec.check(False, f"{fp}/dataset-polygon", f"polygon {n} of the dataset differs from the reference", p.wkt,
                      None if own[n] is None else own[n].wkt)
            return rec.result()
        cells.append((n, own[n]))
    if len(cells) < len(polys):
        rec.nontrivial('holes')
    if truth.family in ('shoc_standard', 'ugrid'):
        rec.nontrivial('kind-in-index')

    def check_index(n, raw, label):
        try:
            native = native_from_json(truth, raw)
            back = lib(convention.ravel_index, native)
        except (LibraryRaised, Exception) as err:  # noqa: BLE001
            rec.check(False, f"{fp}/index-unusable", f"{label}: index {raw!r} cannot be converted back", n, str(err))
            return
        rec.check(back == n, f"{fp}/index-other-cell", f"{label}: index {raw!r} identifies another cell", n, back)

    form = case.get('path_form', 'absolute')
    if form != 'absolute':
        rec.nontrivial(('path', form))
    sizes = {len(p.exterior.coords) for _, p in cells}
    if len(sizes) > 1:
        rec.nontrivial('mixed-sizes')
    if case.get('fine'):
        rec.nontrivial('fine-coordinates')

    def target(tmp, name):
        """(what is passed to the writer, where the file must appear)"""
        if form == 'pathlib':
            return pathlib.Path(tmp) / name, os.path.join(tmp, name)
        if form == 'bare':
            return name, os.path.join(tmp, name)
        if form == 'relative':
            os.makedirs(os.path.join(tmp, 'sub'), exist_ok=True)
            return os.path.join('sub', name), os.path.join(tmp, 'sub', name)
        return os.path.join(tmp, name), os.path.join(tmp, name)

    here = os.getcwd()
    try:
        with env.scratch_dir() as tmp:
            if form in ('bare', 'relative'):
                os.chdir(tmp)
            _export_and_compare(rec, fp, fmt, ds, truth, cells, check_index, target, tmp)
    finally:
        os.chdir(here)
    rec.outcome([truth.family, fmt, len(cells), len(polys), form, sorted(sizes)])
    return rec.result()


def _export_and_compare(rec, fp, fmt, ds, truth, cells, check_index, target, tmp):
    from emsarray.operations import geometry
    if True:
        if fmt == 'geojson':
            argument, path = target(tmp, 'out.geojson')
            try:
                lib(geometry.write_geojson, ds, argument)
            except LibraryRaised as err:
                rec.check(False, f"{fp}/raised", "write_geojson raised", 'file', str(err))
                return
            try:
                with open(path) as f:
                    data = json.load(f)
            except (OSError, ValueError) as err:
                rec.check(False, f"{fp}/unreadable", "the GeoJSON file cannot be read back", 'valid JSON', f"{type(err).__name__}: {err}")
                return
            features = data.get('features', [])
            if not rec.check(data.get('type') == 'FeatureCollection' and len(features) == len(cells),
                             f"{fp}/feature-count", "number of features", len(cells), len(features)):
                return
            for feature, (n, poly) in zip(features, cells):
                geom = feature['geometry']
                coords = [[float(v) for v in c] for c in geom['coordinates'][0]] if geom['type'] == 'Polygon' else None
                rec.check(coords == ring_list(poly) and len(geom['coordinates']) == 1, f"{fp}/coordinates",
                          f"feature for cell {n}", ring_list(poly), coords)
                props = feature.get('properties', {})
                rec.check(props.get('linear_index') == n, f"{fp}/linear-index", f"feature for cell {n}", n, props.get('linear_index'))
                check_index(n, props.get('index'), f"feature for cell {n}")
        elif fmt == 'shapefile':
            import shapefile
            argument, path = target(tmp, 'out.shp')
            try:
                lib(geometry.write_shapefile, ds, argument)
            except LibraryRaised as err:
                rec.check(False, f"{fp}/raised", "write_shapefile raised", 'file', str(err))
                return
            try:
                with shapefile.Reader(path) as reader:
                    shapes = reader.shapes()
                    records = [r.as_dict() for r in reader.records()]
            except Exception as err:  # noqa: BLE001  (pyshp is the independent reader here)
                rec.check(False, f"{fp}/unreadable", "the Shapefile cannot be read back", 'a shapefile', f"{type(err).__name__}: {err}")
                return
            if not rec.check(len(shapes) == len(cells) == len(records), f"{fp}/feature-count", "number of shapes/records",
                             len(cells), [len(shapes), len(records)]):
                return
            for shape, record, (n, poly) in zip(shapes, records, cells):
                got = shapely.geometry.shape(shape.__geo_interface__)
                # the shapefile format stores rings clockwise; the same point set and vertex set is required
                same = got.equals(poly) and {tuple(c) for c in got.exterior.coords} == {tuple(c) for c in poly.exterior.coords}
                rec.check(same, f"{fp}/coordinates", f"shape for cell {n}", poly.wkt, got.wkt)
                linear = next((v for k, v in record.items() if k.lower().startswith('linear_ind')), 'absent')
                rec.check(linear == n, f"{fp}/linear-index", f"record for cell {n}: linear index", n, linear)
                raw = record.get('index')
                try:
                    raw_value = json.loads(raw)
                except Exception:  # noqa: BLE001
                    rec.check(False, f"{fp}/index-unusable", f"record for cell {n}: index field {raw!r}", 'json', raw)
                    continue
                check_index(n, raw_value, f"record for cell {n}")
        else:
            argument, path = target(tmp, f'out.{fmt}')
            writer = geometry.write_wkt if fmt == 'wkt' else geometry.write_wkb
            try:
                lib(writer, ds, argument)
            except LibraryRaised as err:
                rec.check(False, f"{fp}/raised", f"write_{fmt} raised", 'file', str(err))
                return
            try:
                if fmt == 'wkt':
                    with open(path) as f:
                        multi = shapely.from_wkt(f.read())
                else:
                    with open(path, 'rb') as f:
                        multi = shapely.from_wkb(f.read())
            except Exception as err:  # noqa: BLE001  (shapely's readers are the independent readers here)
                rec.check(False, f"{fp}/unreadable", f"the {fmt} file cannot be read back", 'geometry', f"{type(err).__name__}: {err}")
                return
            geoms = list(getattr(multi, 'geoms', [multi]))
            if not rec.check(len(geoms) == len(cells), f"{fp}/feature-count", "number of polygons", len(cells), len(geoms)):
                return
            for got, (n, poly) in zip(geoms, cells):
                rec.check(ring_list(got) == ring_list(poly) and len(got.interiors) == 0, f"{fp}/coordinates",
                          f"polygon for cell {n}", ring_list(poly), ring_list(got))
