"""C09 -- clipped and subsetted datasets remain valid datasets with unchanged geometry."""
from __future__ import annotations

import itertools
import os

import numpy as np
import xarray as xr
from shapely.geometry import Polygon

from .. import builders, clipping, env, ref
from ..runner import LibraryRaised, Recorder, lib
from .c08 import error_class
from .c10 import masked_rows, pad

PROPERTY = 'C09'
TITLE = 'Clipped and subsetted datasets remain valid datasets with unchanged geometry'
RULE = (
    "Clip part: the same (dataset, regime, geometry, buffer, pipeline) space as C08, plus meshes with "
    "every subset of the optional connectivity variables x {0,1}-based x fill representation (in memory, "
    "reopened, reopened raw).  For every output: same convention class; ems.to_netcdf then reopen gives "
    "the same convention and polygons; where geometry is explicit every output polygon equals the "
    "original at the mapped position and every selected cell keeps its polygon; mesh connectivity "
    "variables all survive with dims order, start_index and integer type, and equal the original tables "
    "filtered to the surviving elements and renumbered.  Select part: one case per dataset: "
    "select_variables(S) for every subset S of the data variables (all subsets up to 8 variables, else "
    "sizes 0,1,2,n-1,n) leaves polygons, geometry variables, depth and time coordinates identical.  "
    "Non-trivial: meshes with >= 1 optional table, 1-based, plain-variable coordinates, reloaded masks."
    ' Also: meshes with int8 / int16 connectivity on more than 99 / 9999 nodes (fill value clamping), and after every clip a point lookup, select and flatten on the clipped dataset (clip-then-select).'
    " Datasets also arrive with a history: warmed convention, copy, deep copy, pickle, netCDF round trip, fully chunked (dask), and hand-built conventions for coordinates autodetection would not pick (decoy pair), after warm / pickle. Second phase: the first case of every distinct outcome and kind (thorough: every case, for expensive checks every kind) again with debug logging enabled, under numpy.errstate(all='ignore'), and in python -O child interpreters."
)
LEVEL_TEXT = ("every clip output of the C08 product plus all 16 connectivity subsets x index base x fill representation, "
              "saved and reopened; polygons mapped cell by cell; connectivity compared with the filtered and renumbered "
              "reference tables; select_variables over all variable subsets")
LEVEL_NOTE = "xarray/netCDF4 I/O trusted; derived (non-stored) cell geometry is not required to survive a crop"
ASSUMPTIONS = [
    "CF grids without stored bounds derive their polygons from the cropped coordinates; identity of polygons is only required where geometry is stored explicitly",
]


def bounds(tier):
    return {'cases': 'clipping.clip_cases(tier) + one select_variables case per dataset'}


from ..runner import coarse_environment_key as environment_key  # noqa: E402  (expensive cases: second phase on one case per kind)
ENVIRONMENTS_ON_REPRESENTATIVES_ONLY = True


def cases(tier):
    out = clipping.clip_cases(tier, 'C09')
    for spec in clipping.dataset_specs(tier, 'C09'):
        out.append({'part': 'select', 'spec': spec})
    return out


def run_case(case):
    rec = Recorder()
    if case.get('part') == 'select':
        run_select(case, rec)
        return rec.result()
    family = case['spec']['family']
    fp = f"C09/{family}/{case['regime']}"
    spec = case['spec']
    if family == 'ugrid' and (spec.get('supplied') or spec.get('start_index')):
        rec.nontrivial('tables')
    if spec.get('coords_as') == 'var' and family != 'ugrid':
        rec.nontrivial('plain-coordinates')
    with env.scratch_dir() as tmp:
        for name, ds_in, truth, mask, out in clipping.run_pipelines(case, tmp):
            label = f"{name} {case['geometry']} buffer={case['buffer']}"
            if name != 'direct':
                rec.nontrivial(name)
            if isinstance(out, LibraryRaised) or mask is None:
                rec.check(False, f"{fp}/{error_class(out)}", f"{label}: clipping raised", 'clipped dataset', str(out))
                continue
            check_output(rec, fp, label, ds_in, truth, mask, out, tmp, name)
    rec.outcome([family, case['regime'], case['geometry'], case['buffer']])
    return rec.result()


def polygons_of(dataset):
    return list(dataset.ems.polygons)


def check_output(rec, fp, label, ds_in, truth, mask, out, tmp, name):
    try:
        convention = lib(lambda: out.ems)
    except LibraryRaised as err:
        rec.check(False, f"{fp}/not-recognised", f"{label}: clipped dataset not recognised", truth.convention, str(err))
        return
    if not rec.check(type(convention).__name__ == truth.convention, f"{fp}/convention-changed", f"{label}: convention of the output",
                     truth.convention, type(convention).__name__):
        return
    try:
        out_polys = lib(lambda: list(convention.polygons))
    except LibraryRaised as err:
        if truth.family == 'cf1d' and not truth.get('explicit') and min(out.sizes[d] for d in truth.kinds['face']['dims']) < 2:
            rec.step()   # a size-1 axis without stored bounds has no defined cells: refusal accepted (DESIGN 6)
            return
        rec.check(False, f"{fp}/polygons-raised", f"{label}: polygons of the output raised", 'polygons', str(err))
        return

    # save with the EMS fixes and reopen
    path = os.path.join(tmp, f'saved-{name}.nc')
    try:
        lib(convention.to_netcdf, path)
        reopened = lib(xr.open_dataset, path)
    except LibraryRaised as err:
        kind = 'save-fillvalue-conflict' if '_FillValue' in str(err) else 'save-raised'
        rec.check(False, f"{fp}/{kind}", f"{label}: saving the clipped dataset raised", 'file', str(err))
        reopened = None
    if reopened is not None:
        try:
            re_conv = lib(lambda: reopened.ems)
            re_polys = lib(lambda: list(re_conv.polygons))
            same = type(re_conv).__name__ == truth.convention and len(re_polys) == len(out_polys) and all(
                (a is None and b is None) or (a is not None and b is not None and a.equals(b))
                for a, b in zip(out_polys, re_polys))
            rec.check(same, f"{fp}/reopened-differs", f"{label}: saved and reopened dataset differs in convention or polygons",
                      [truth.convention, len(out_polys)], [type(re_conv).__name__, len(re_polys)])
        except LibraryRaised as err:
            rec.check(False, f"{fp}/reopened-raised", f"{label}: reopened dataset unusable", truth.convention, str(err))

    in_polys = ref.ref_polygons(truth)
    check_lookup_after_clip(rec, fp, label, ds_in, truth, mask, out, convention, in_polys)
    if truth.family == 'ugrid':
        check_mesh(rec, fp, label, ds_in, truth, mask, out, convention, out_polys, in_polys, path if reopened is not None else None)
    elif truth.get('explicit'):
        check_grid_polygons(rec, fp, label, truth, mask, out_polys, in_polys)
    if reopened is not None:
        reopened.close()


def check_lookup_after_clip(rec, fp, label, ds_in, truth, mask, out, convention, in_polys):
    """Clip, then look a point up / select it / flatten a variable on the result: the clipped dataset must
    answer with the cell the point belonged to before (two features interacting)."""
    if truth.family == 'ugrid':
        kept = clipping.mesh_selection(truth, mask)['face']
        mapping_ = {old: new for new, old in enumerate(kept)}
        selected = list(kept)
    else:
        if not truth.get('explicit'):
            return
        values, slices = clipping.grid_selection(truth, mask)['face']
        dims = truth.kinds['face']['dims']
        (j0, j1), (i0, i1) = slices[dims[0]], slices[dims[1]]
        ncols = truth.kinds['face']['shape'][1]
        mapping_, selected = {}, []
        for j in range(j0, j1):
            for i in range(i0, i1):
                mapping_[j * ncols + i] = (j - j0) * (i1 - i0) + (i - i0)
                if values[j, i]:
                    selected.append(j * ncols + i)
    botz = truth.vars['botz']
    labels = ref.expected_values(botz, len(in_polys), truth.shift)
    try:
        flat = lib(convention.ravel, out['botz']).values
    except LibraryRaised as err:
        rec.check(False, f"{fp}/after-clip-ravel-raised", f"{label}: ravel on the clipped dataset raised", 'values', str(err))
        return
    for old in selected[:12]:
        polygon = in_polys[old]
        if polygon is None or isinstance(polygon, str):
            continue
        new = mapping_[old]
        point = polygon.representative_point()
        try:
            item = lib(convention.get_index_for_point, point)
        except LibraryRaised as err:
            rec.check(False, f"{fp}/after-clip-lookup-raised", f"{label}: point lookup on the clipped dataset raised", new, str(err))
            continue
        rec.check(item is not None and int(item.linear_index) == new, f"{fp}/after-clip-lookup",
                  f"{label}: a point inside selected cell {old} is found at the wrong cell of the clipped dataset", new,
                  None if item is None else int(item.linear_index))
        rec.check(new < len(flat) and float(flat[new]) == float(labels[old]), f"{fp}/after-clip-values",
                  f"{label}: flattened botz of the clipped dataset at the cell that was {old}", float(labels[old]),
                  float(flat[new]) if new < len(flat) else None)


def check_grid_polygons(rec, fp, label, truth, mask, out_polys, in_polys):
    selection = clipping.grid_selection(truth, mask)
    values, slices = selection['face']
    dims = truth.kinds['face']['dims']
    (j0, j1), (i0, i1) = slices[dims[0]], slices[dims[1]]
    shape = truth.kinds['face']['shape']
    if not rec.check(len(out_polys) == (j1 - j0) * (i1 - i0), f"{fp}/polygon-count", f"{label}: number of cells", (j1 - j0) * (i1 - i0), len(out_polys)):
        return
    for j in range(j0, j1):
        for i in range(i0, i1):
            original = in_polys[j * shape[1] + i]
            got = out_polys[(j - j0) * (i1 - i0) + (i - i0)]
            if got is not None:
                ok = original is not None and not isinstance(original, str) and got.equals(original)
                rec.check(ok, f"{fp}/new-or-moved-polygon", f"{label}: output cell ({j - j0},{i - i0}) has a polygon the original cell ({j},{i}) did not have",
                          None if original is None else original.wkt, got.wkt)
            if values[j, i] and original is not None:
                rec.check(got is not None, f"{fp}/selected-polygon-lost", f"{label}: selected cell ({j},{i}) lost its polygon", original.wkt, None)


def mapped_tables(truth, kept) -> dict:
    """The original tables restricted to the surviving elements, renumbered (None = missing)."""
    faces_kept, nodes_kept = kept['face'], kept['node']
    node_map = {old: new for new, old in enumerate(nodes_kept)}
    face_map = {old: new for new, old in enumerate(faces_kept)}
    tables = truth.tables
    out = {'face_node': [[node_map[n] for n in truth.faces[f]] for f in faces_kept]}
    edges_kept = kept.get('edge')
    if edges_kept is not None:
        edge_map = {old: new for new, old in enumerate(edges_kept)}
        out['edge_node'] = [[node_map.get(n) for n in tables['edge_node'][e]] for e in edges_kept]
        out['edge_face'] = [[None if f is None else face_map.get(f) for f in tables['edge_face'][e]] for e in edges_kept]
        out['face_edge'] = [[edge_map.get(e) for e in tables['face_edge'][f]] for f in faces_kept]
    out['face_face'] = [[None if g is None else face_map.get(g) for g in tables['face_face'][f]] for f in faces_kept]
    return out


TABLE_VARS = {
    'face_node': 'Mesh2_face_nodes', 'edge_node': 'Mesh2_edge_nodes', 'face_edge': 'Mesh2_face_edges',
    'edge_face': 'Mesh2_edge_faces', 'face_face': 'Mesh2_face_links',
}


def same_rows_modulo_order_of_missing(got, want) -> bool:
    """Rows are equal; for edge_face / face_face a missing entry may sit anywhere in its row."""
    if len(got) != len(want):
        return False
    for g, w in zip(got, want):
        if sorted((v for v in g if v is not None)) != sorted((v for v in w if v is not None)):
            return False
    return True


def check_mesh(rec, fp, label, ds_in, truth, mask, out, convention, out_polys, in_polys, saved_path):
    kept = clipping.mesh_selection(truth, mask)
    faces_kept = kept['face']
    if rec.check(len(out_polys) == len(faces_kept), f"{fp}/polygon-count", f"{label}: number of faces", len(faces_kept), len(out_polys)):
        for k, old in enumerate(faces_kept):
            rec.check(out_polys[k] is not None and ref.polygon_matches(out_polys[k], truth.polygons[old], 'sequence'),
                      f"{fp}/face-polygon-changed", f"{label}: output face {k} is not original face {old}", truth.polygons[old],
                      None if out_polys[k] is None else ref.ring_of(out_polys[k]))
    want = mapped_tables(truth, kept)
    supplied = ['face_node'] + list(truth.supplied)
    topology = convention.topology
    width = truth.width
    for table in supplied:
        var = TABLE_VARS[table]
        if var not in out.variables:
            rec.check(False, f"{fp}/connectivity-lost", f"{label}: {table} connectivity missing from the output", var, sorted(map(str, out.variables)))
            continue
        if table not in want:
            continue   # edge tables on a mask without edges cannot be renumbered; nothing to compare
        rec.check(tuple(out[var].dims) == tuple(ds_in[var].dims), f"{fp}/connectivity-dims", f"{label}: dims of {var}",
                  ds_in[var].dims, out[var].dims)
        rec.check(out[var].attrs.get('start_index') == ds_in[var].attrs.get('start_index'), f"{fp}/start-index-changed",
                  f"{label}: start_index of {var}", ds_in[var].attrs.get('start_index'), out[var].attrs.get('start_index'))
        try:
            got = masked_rows(lib(lambda: getattr(topology, f'{table}_array')))
        except LibraryRaised as err:
            rec.check(False, f"{fp}/connectivity-unreadable", f"{label}: {table}_array of the output raised", 'array', str(err))
            continue
        w = 2 if table.startswith('edge') else width
        expected = pad(want[table], w)
        if table in ('edge_face', 'face_face'):
            ok = same_rows_modulo_order_of_missing(got, expected)
        else:
            ok = got == expected
        rec.check(ok, f"{fp}/connectivity-{table}-wrong", f"{label}: {table} of the output is not the original table filtered and renumbered",
                  expected[:5], got[:5])
    # index base and integer type survive a save
    if saved_path is not None:
        import netCDF4
        with netCDF4.Dataset(saved_path) as nc:
            for table in supplied:
                var = TABLE_VARS[table]
                if var not in nc.variables or var not in ds_in.variables:
                    continue
                was_integer = ds_in[var].dtype.kind in 'iu' or np.dtype(ds_in[var].encoding.get('dtype', 'float64')).kind in 'iu'
                if was_integer:
                    rec.check(nc.variables[var].dtype.kind in 'iu', f"{fp}/connectivity-dtype", f"{label}: stored type of {var}",
                              'integer', str(nc.variables[var].dtype))
                stored_start = getattr(nc.variables[var], 'start_index', None)
                rec.check(stored_start == ds_in[var].attrs.get('start_index'), f"{fp}/start-index-changed",
                          f"{label}: stored start_index of {var}", ds_in[var].attrs.get('start_index'), stored_start)


def run_select(case, rec):
    ds, truth = builders.build(case['spec'])
    fp = f"C09/{truth.family}/select"
    convention = ds.ems
    base_polys = list(convention.polygons)
    names = [n for n in truth.vars]
    if len(names) <= 8:
        subsets = [list(c) for r in range(len(names) + 1) for c in itertools.combinations(names, r)]
    else:
        sizes = sorted({0, 1, 2, len(names) - 1, len(names)})
        subsets = [list(c) for r in sizes for c in itertools.combinations(names, r)]
    keep_always = list(truth.geometry_names) + [truth.time_name] + list(truth.depth_names)
    for subset in subsets:
        if 0 < len(subset) < len(names):
            rec.nontrivial(tuple(subset))
        try:
            selected = lib(convention.select_variables, subset)
        except LibraryRaised as err:
            rec.check(False, f"{fp}/raised", f"select_variables({subset})", 'dataset', str(err))
            continue
        want_vars = set(subset)
        got_vars = {n for n in selected.data_vars if n in names}
        rec.check(got_vars == want_vars, f"{fp}/data-variables", f"select_variables({subset}): data variables kept", sorted(want_vars), sorted(got_vars))
        for name in keep_always:
            if name not in ds.variables:
                continue
            ok = name in selected.variables and selected[name].identical(ds[name])
            rec.check(ok, f"{fp}/geometry-variable-changed", f"select_variables({subset}): {name}", 'identical', 'missing or changed')
        try:
            polys = lib(lambda: list(selected.ems.polygons))
            same = type(selected.ems).__name__ == truth.convention and len(polys) == len(base_polys) and all(
                (a is None and b is None) or (a is not None and b is not None and a.equals(b)) for a, b in zip(polys, base_polys))
            rec.check(same, f"{fp}/polygons-changed", f"select_variables({subset}): polygons", len(base_polys), len(polys))
        except LibraryRaised as err:
            rec.check(False, f"{fp}/polygons-raised", f"select_variables({subset}): polygons raised", 'polygons', str(err))
    rec.outcome([truth.family, 'select', len(subsets)])
