"""C17 -- saving with the EMS fixes preserves data, geometry and time instants."""
from __future__ import annotations

import datetime
import itertools
import json
import os
import re
import subprocess
import sys

import numpy as np
import xarray as xr

from .. import builders, env, ref, sequences
from ..runner import LibraryRaised, Recorder, lib

PROPERTY = 'C17'
TITLE = 'Saving with the EMS fixes preserves data, geometry and time instants'
RULE = (
    "Units part: one case per (period, epoch); inside, every UTC offset from -12:00 to +14:00 in 15-minute "
    "steps (105) x every ISO spelling {T / space separator, with / without seconds, offset as +HH:MM, "
    "+HHMM, +HH, attached or separated by a space, Z / nothing for zero}.  A spelling is judged only if "
    "cftime reads the input as the instant the generator meant (others are counted as excluded).  Oracle: "
    "an independent regular grammar for the output '<unit> since YYYY-MM-DD HH:MM:SS +H[H]:MM', local "
    "time minus offset equals the generator's UTC instant, and cftime reads the output as that instant.  "
    "File part: one case per (dataset of every convention, in memory / reopened, unit string out of 6 incl. "
    "-09:30, +08:00, +05:45): ems.to_netcdf then reopen gives the same convention, equal polygons, "
    "bitwise equal variables, equal time instants, and the raw file carries _FillValue exactly on the "
    "variables that had one.  Non-trivial: negative, single-digit-hour or fractional-hour offsets."
    ' Also: integer time encodings whose unit does not divide the time steps; the unit strings again in child interpreters whose local time zone (TZ) is AEST-10, GMT0BST with summer time, PST8PDT; datasets with a scalar forecast reference time next to the time axis.'
    " Also (operation sequences, mc/sequences.py): for 8 base datasets and every sequence `first [middle] query` over 36 operations (queries, in-place edits a user makes, transforms whose result is used next; quick length 2, thorough length 3, and for this property length 4 `first m1 m2 query` wherever m1 or m2 is an in-place edit) ending in one of this property's own queries, the answer on the one used object equals the answer on a never-used rebuild. Second phase: the first case of every distinct outcome and kind (thorough: every case, for expensive checks every kind) again with debug logging enabled, under numpy.errstate(all='ignore'), and in python -O child interpreters."
)
LEVEL_TEXT = ("every (period, epoch, 15-minute UTC offset, spelling) combination of the stated product through "
              "format_time_units_for_ems, with an independent parser and cftime as consumer; save/reopen round trips "
              "for every convention x regime x 6 unit strings")
LEVEL_NOTE = "cftime is trusted as the consumer-side reading of unit strings; netCDF4/xarray I/O trusted"
ASSUMPTIONS = [
    "input spellings that cftime does not read as the intended instant are excluded and reported, not judged",
    "time values are encoded as float64; decoded instants are compared exactly (they are multiples of 15 minutes)",
]

PERIODS = ('days', 'hours', 'minutes', 'seconds')
EPOCHS = [
    (1990, 1, 1, 0, 0, 0), (2000, 2, 29, 12, 30, 45), (900, 6, 15, 1, 2, 3), (1970, 1, 1, 0, 0, 0), (1999, 12, 31, 23, 59, 59),
    (1, 6, 15, 0, 0, 0),
    (2024, 12, 31, 18, 0, 0), (2001, 1, 1, 0, 0, 1), (1980, 6, 15, 6, 7, 8), (2020, 2, 29, 23, 0, 0),
]
OUTPUT_RE = re.compile(r'^(seconds|minutes|hours|days) since (\d{4})-(\d{2})-(\d{2}) (\d{2}):(\d{2}):(\d{2}) ([+-])(\d{1,2}):(\d{2})$')
FILE_UNITS = [
    'days since 1990-01-01 00:00:00 +10:00', 'hours since 2000-02-29T12:00:00-09:30', 'days since 1990-01-01 00:00:00 +08:00',
    'minutes since 1999-12-31 23:45:00 +05:45', 'seconds since 1970-01-01 00:00:00', 'days since 2001-01-01T00:00:00Z',
]


def bounds(tier):
    return {'periods': list(PERIODS) if tier == 'thorough' else ['days', 'seconds'],
            'epochs': len(EPOCHS) if tier == 'thorough' else 4, 'offsets': 105, 'file_units': FILE_UNITS}


def file_specs(tier):
    specs = [
        {'family': 'cf1d', 'ny': 2, 'nx': 3, 'ints': True},
        {'family': 'cf2d', 'ny': 2, 'nx': 2, 'holes': 'corner'},
        {'family': 'shoc_simple', 'ny': 2, 'nx': 2},
        {'family': 'shoc_standard', 'nj': 2, 'ni': 2, 'ints': True},
        {'family': 'ugrid', 'mesh': 'M4', 'supplied': ['edge_node', 'face_edge'], 'fill': 'fillattr', 'start_index': 1, 'ints': True},
    ]
    if tier == 'thorough':
        specs += [
            {'family': 'cf1d', 'ny': 3, 'nx': 3, 'bounds': 'coord', 'names': 'other', 'coords_as': 'var'},
            {'family': 'cf2d', 'ny': 3, 'nx': 3, 'bounds': 'derived', 'coords_as': 'var'},
            {'family': 'shoc_standard', 'nj': 3, 'ni': 3, 'dry': 'corner', 'coords_as': 'var'},
            {'family': 'ugrid', 'mesh': 'M7', 'coords_as': 'coord', 'face_coords': True},
            {'family': 'ugrid', 'mesh': 'M6', 'supplied': list(builders.OPTIONAL_TABLES), 'fill': 'nan'},
        ]
    return specs


def _cases_first_call(tier):
    periods = PERIODS if tier == 'thorough' else ('days', 'seconds')
    epochs = EPOCHS if tier == 'thorough' else EPOCHS[:4]
    out = [{'part': 'units', 'period': p, 'epoch': list(e)} for p in periods for e in epochs]
    # the same strings in interpreters whose local time zone is not UTC (fixed offset, and one with summer time)
    for tz in ('AEST-10', 'GMT0BST,M3.5.0/1,M10.5.0', 'PST8PDT'):
        for p in periods[:1]:
            for e in (EPOCHS[0], EPOCHS[6]):
                out.append({'part': 'units', 'period': p, 'epoch': list(e), 'tz': tz})
    for spec in file_specs(tier):
        for regime in ('memory', 'file'):
            for units in FILE_UNITS:
                out.append({'part': 'file', 'spec': spec, 'regime': regime, 'units': units})
            for units in (FILE_UNITS[0], FILE_UNITS[1]):
                out.append({'part': 'file', 'spec': spec, 'regime': regime, 'units': units, 'time_dtype': 'int32'})
            # a second, smaller datetime variable next to the time axis (a forecast reference time)
            out.append({'part': 'file', 'spec': spec, 'regime': regime, 'units': FILE_UNITS[0], 'reference_time': True})
            # a time axis with no records yet, a single record, and what isel(time=0) leaves: a scalar time coordinate
            for shape in ('empty', 'single', 'scalar'):
                out.append({'part': 'file', 'spec': spec, 'regime': regime, 'units': FILE_UNITS[1], 'time_shape': shape})
            # the calendar named the way real files name it (CF: case insensitive); a duration variable stored as floating hours
            for calendar in ('Gregorian', 'STANDARD', 'Proleptic_Gregorian'):
                out.append({'part': 'file', 'spec': spec, 'regime': regime, 'units': FILE_UNITS[2], 'calendar': calendar})
            out.append({'part': 'file', 'spec': spec, 'regime': regime, 'units': FILE_UNITS[0], 'duration_variable': True})
            # the period of the units given at save time (Dataset.to_netcdf's encoding argument) rather than by the source
            out.append({'part': 'file', 'spec': spec, 'regime': regime, 'units': FILE_UNITS[0], 'encoding_argument': 'minutes'})
    return out


def spellings(epoch, offset_minutes):
    y, mo, d, h, mi, s = epoch
    sign = '-' if offset_minutes < 0 else '+'
    oh, om = divmod(abs(offset_minutes), 60)
    offsets = [f'{sign}{oh:02d}:{om:02d}', f'{sign}{oh:02d}{om:02d}']
    if om == 0:
        offsets.append(f'{sign}{oh:02d}')
    if offset_minutes == 0:
        offsets += ['Z', '']
    times = [f'{h:02d}:{mi:02d}:{s:02d}']
    if s == 0:
        times.append(f'{h:02d}:{mi:02d}')
    for sep, time_text, offset, joiner in itertools.product(('T', ' '), times, offsets, ('', ' ')):
        if offset == '' and joiner == ' ':
            continue
        yield f'{y:04d}-{mo:02d}-{d:02d}{sep}{time_text}{joiner}{offset}'


def run_units(case, rec):
    import cftime
    from emsarray import utils
    period, epoch = case['period'], tuple(case['epoch'])
    fp = "C17/units"
    local = datetime.datetime(*epoch)
    excluded = judged = 0
    for offset_minutes in range(-12 * 60, 14 * 60 + 1, 15):
        utc = local - datetime.timedelta(minutes=offset_minutes)
        oh = abs(offset_minutes) // 60
        hard = offset_minutes < 0 or oh < 10 or offset_minutes % 60 != 0
        for text in spellings(epoch, offset_minutes):
            units = f'{period} since {text}'
            try:
                understood = cftime.num2pydate(0, units, 'proleptic_gregorian') == utc
            except Exception:  # noqa: BLE001
                understood = False
            if not understood:
                excluded += 1
                continue
            judged += 1
            if hard:
                rec.nontrivial(units)
            kind = ('negative' if offset_minutes < 0 else 'positive') + ('-fractional' if offset_minutes % 60 else '') + \
                ('-one-digit-hour' if oh < 10 and offset_minutes != 0 else '')
            try:
                result = lib(utils.format_time_units_for_ems, units)
            except LibraryRaised as err:
                rec.check(False, f"{fp}/raised/{kind}", f"format_time_units_for_ems({units!r}) raised", 'EMS units', str(err))
                continue
            match = OUTPUT_RE.match(result) if isinstance(result, str) else None
            if not rec.check(match is not None, f"{fp}/form/{kind}", f"{units!r}: output does not have the EMS form", OUTPUT_RE.pattern, result):
                continue
            unit, yy, mm, dd, hh, mi_, ss, sgn, ohh, omm = match.groups()
            rec.check(unit == period, f"{fp}/period", f"{units!r}: period changed", period, unit)
            try:
                out_local = datetime.datetime(int(yy), int(mm), int(dd), int(hh), int(mi_), int(ss))
                out_offset = (int(ohh) * 60 + int(omm)) * (-1 if sgn == '-' else 1)
                valid = int(omm) < 60
            except ValueError:
                valid = False
            if not rec.check(valid, f"{fp}/form/{kind}", f"{units!r}: output is not a date", 'valid date', result):
                continue
            rec.check(out_local - datetime.timedelta(minutes=out_offset) == utc, f"{fp}/instant/{kind}",
                      f"{units!r} -> {result!r}: reference instant moved", utc.isoformat(),
                      (out_local - datetime.timedelta(minutes=out_offset)).isoformat())
            rec.check(out_offset == offset_minutes, f"{fp}/offset/{kind}", f"{units!r} -> {result!r}: offset changed", offset_minutes, out_offset)
            try:
                consumer = cftime.num2pydate(0, result, 'proleptic_gregorian')
                rec.check(consumer == utc, f"{fp}/consumer/{kind}", f"{result!r} read by cftime", utc.isoformat(), consumer.isoformat())
            except Exception as err:  # noqa: BLE001
                rec.check(False, f"{fp}/consumer/{kind}", f"{result!r} not readable by cftime", utc.isoformat(), str(err))
    rec.outcome([period, epoch, judged, excluded])


def fill_expectation(ds) -> dict:
    out = {}
    for name, var in ds.variables.items():
        has = var.attrs.get('_FillValue', var.encoding.get('_FillValue')) is not None
        out[str(name)] = has
    return out


def run_file(case, rec):
    import netCDF4
    spec = case['spec']
    fp = f"C17/file/{spec['family']}/{case['regime']}"
    offset_text = case['units'].split()[-1]
    if any(t in case['units'] for t in ('-09:30', '+08:00', '+05:45')):
        rec.nontrivial(case['units'])
    with env.scratch_dir() as tmp:
        ds, truth = builders.build(spec)
        ds[truth.time_name].encoding['units'] = case['units']
        # 'int32': six-hourly data requested as whole days etc.: xarray re-expresses the units when writing
        ds[truth.time_name].encoding['dtype'] = np.dtype(case.get('time_dtype', 'float64'))
        if case.get('calendar'):
            rec.nontrivial(('calendar', case['calendar']))
            ds[truth.time_name].encoding['calendar'] = case['calendar']
        if case.get('duration_variable'):
            rec.nontrivial('duration')
            ds['lead_time'] = xr.DataArray(np.array([3, 6], dtype='timedelta64[h]').astype('timedelta64[ns]')[:ds.sizes[truth.time_dim]],
                                           dims=[truth.time_dim], attrs={'long_name': 'forecast lead time'})
            ds['lead_time'].encoding.update({'dtype': np.dtype('float64'), 'units': 'hours'})
        if case.get('reference_time'):
            ds['forecast_reference_time'] = xr.DataArray(np.datetime64('2021-11-10T12:00:00', 'ns'), attrs={'long_name': 'reference time'})
            ds['forecast_reference_time'].encoding.update({'units': 'hours since 2021-01-01 00:00:00', 'dtype': np.dtype('float64')})
        if case['regime'] == 'file':
            ds = builders.reopen(ds, tmp, 'source.nc')
        shape = case.get('time_shape')
        if shape:
            rec.nontrivial(('time-shape', shape))
            selector = {'empty': slice(0, 0), 'single': slice(0, 1), 'scalar': 0}[shape]
            ds = ds.isel({truth.time_dim: selector})
        want_fill = fill_expectation(ds)
        save_kwargs = {}
        if case.get('encoding_argument'):
            rec.nontrivial('encoding-argument')
            epoch_text = case['units'].split(' since ', 1)[1]
            save_kwargs['encoding'] = {truth.time_name: {'units': f"{case['encoding_argument']} since {epoch_text}", 'dtype': 'float64'}}
        try:
            # what xarray itself cannot write (e.g. the source file's chunk sizes on an axis that is now empty) is no
            # business of the save method
            ds.to_netcdf(os.path.join(tmp, 'plain.nc'), **save_kwargs)
        except Exception:  # noqa: BLE001
            rec.step()
            rec.outcome([spec['family'], case['regime'], 'not-writable-by-xarray'])
            return
        try:
            convention = lib(lambda: ds.ems)
            base_polys = lib(lambda: list(convention.polygons))
        except LibraryRaised as err:
            rec.check(False, f"{fp}/source-unusable", "source dataset unusable", truth.convention, str(err))
            return
        path = os.path.join(tmp, 'saved.nc')
        try:
            lib(convention.to_netcdf, path, **save_kwargs)
        except LibraryRaised as err:
            which = 'save-raised-time-units' if 'reference time' in str(err) or 'units' in str(err).lower() else 'save-raised'
            rec.check(False, f"{fp}/{which}", f"ems.to_netcdf with units {case['units']!r} raised", 'file', str(err))
            return
        with netCDF4.Dataset(path) as nc:
            stored_units = nc.variables[truth.time_name].getncattr('units')
            rec.check(OUTPUT_RE.match(stored_units) is not None, f"{fp}/stored-units-form", "time units in the file", OUTPUT_RE.pattern, stored_units)
            if case.get('encoding_argument'):
                rec.check(stored_units.startswith(case['encoding_argument'] + ' since '), f"{fp}/period-not-the-one-written",
                          "period of the stored units", case['encoding_argument'], stored_units)
            for name, had in want_fill.items():
                if case.get('encoding_argument') and name == truth.time_name:
                    continue    # the caller's encoding replaces the variable's own, fill value included: theirs to say
                if name not in nc.variables:
                    rec.check(False, f"{fp}/variable-lost", f"{name} missing from the file", name, sorted(nc.variables))
                    continue
                has = '_FillValue' in nc.variables[name].ncattrs()
                if has != had:
                    which = 'fill-value-added' if has else 'fill-value-lost'
                    rec.check(False, f"{fp}/{which}", f"_FillValue on {name}", had, has)
                else:
                    rec.step()
        try:
            reopened = lib(xr.open_dataset, path)
            re_conv = lib(lambda: reopened.ems)
            polys = lib(lambda: list(re_conv.polygons))
        except LibraryRaised as err:
            rec.check(False, f"{fp}/reopen-raised", "saved file cannot be used", truth.convention, str(err))
            return
        rec.check(type(re_conv).__name__ == truth.convention, f"{fp}/convention", "convention after reopening", truth.convention, type(re_conv).__name__)
        same = len(polys) == len(base_polys) and all(
            (a is None and b is None) or (a is not None and b is not None and a.equals(b)) for a, b in zip(polys, base_polys))
        rec.check(same, f"{fp}/polygons", "polygons after reopening", len(base_polys), len(polys))
        for name in ds.variables:
            if name not in reopened.variables:
                rec.check(False, f"{fp}/variable-lost", f"{name} missing after reopening", name, sorted(map(str, reopened.variables)))
                continue
            a, b = ds[name], reopened[name]
            if a.dtype.kind == 'M':
                rec.check(b.dtype.kind == 'M' and a.shape == b.shape and bool(np.all(a.values.astype('datetime64[ns]') == b.values.astype('datetime64[ns]'))),
                          f"{fp}/time-instants", f"time instants of {name} with units {case['units']!r}", a.values, b.values)
            else:
                av = np.asarray(a.values)
                bv = np.asarray(b.values)
                fill = a.attrs.get('_FillValue')
                if fill is not None and av.dtype.kind in 'iu':
                    # an in-memory integer with a _FillValue attribute is decoded to float/NaN on reopening
                    av = np.where(av == fill, np.nan, av.astype('float64'))
                ok = tuple(a.dims) == tuple(b.dims) and ref.same_values(av.astype('float64') if av.dtype.kind in 'iuf' else av,
                                                                        bv.astype('float64') if bv.dtype.kind in 'iuf' else bv)
                rec.check(ok, f"{fp}/values", f"values of {name} after reopening", av, bv)
        reopened.close()
        ds.close()
    rec.outcome([spec['family'], case['regime'], case['units']])


def run_in_time_zone(case, rec):
    """Run a units case in a fresh interpreter whose TZ is set, and merge its verdicts."""
    child_env = dict(os.environ)
    child_env['TZ'] = case['tz']
    child_env['VERIF_C17_CHILD'] = '1'
    child_env['PYTHONPATH'] = env.VERIF
    proc = subprocess.run([sys.executable, '-m', 'mc.checks.c17'], input=json.dumps(case), capture_output=True, text=True,
                          env=child_env, cwd=env.VERIF, timeout=900)
    if proc.returncode != 0:
        raise RuntimeError(f"C17 child failed: {proc.stderr[-2000:]}")
    result = json.loads(proc.stdout.strip().splitlines()[-1])
    rec.transitions += result['transitions']
    for v in result['violations']:
        v = dict(v)
        v['fingerprint'] += '/local-time-zone'
        v['what'] += f" [process time zone {case['tz']}]"
        rec.violations.append(v)
    rec.nontrivial(('tz', case['tz']))
    rec.outcome(['units-tz', case['tz'], case['epoch']])


def _run_case_first_call(case):
    rec = Recorder()
    if case.get('tz') and not os.environ.get('VERIF_C17_CHILD'):
        run_in_time_zone(case, rec)
        return rec.result()
    {'units': run_units, 'file': run_file}[case['part']](case, rec)
    return rec.result()



def cases(tier):
    # first calls on freshly built datasets, then operation sequences on one object (mc/sequences.py)
    return _cases_first_call(tier) + sequences.cases_for(PROPERTY, tier)


def run_case(case):
    if case.get('part') == 'sequence':
        rec = Recorder()
        sequences.run_case(PROPERTY, case, rec)
        return rec.result()
    return _run_case_first_call(case)

if __name__ == '__main__':
    import time
    time.tzset()
    env.import_emsarray()
    print(json.dumps(run_case(json.loads(sys.stdin.read())), default=repr))
