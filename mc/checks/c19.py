"""C19 -- plot artists pair every value with its own cell."""
from __future__ import annotations

import numpy as np
import xarray as xr

from .. import builders, ref, sequences
from ..runner import LibraryRaised, Recorder, lib

PROPERTY = 'C19'
TITLE = 'Plot artists pair every value with its own cell'
RULE = (
    "One case per dataset of the family list (every convention, with and without holes, >10 cells).  "
    "Inside: make_poly_collection without data, with a scalar given by name, as a DataArray, as a "
    "DataArray with its dimensions permuted, as a selection of a time/depth slice, with user clim and "
    "transform overrides, with array= together with a data array (must be refused), with a leftover time "
    "dimension (must be refused); make_quiver with a vector pair by name and as arrays, mismatched "
    "component dimensions (refused), leftover dimensions (refused); animate_on_figure frames for every "
    "time step.  No rendering to pixels, no coastlines.  Oracle: patch k == outline of the k-th cell that "
    "has geometry, array[k] == that cell's label, default colour limits == (min, max) of the plotted "
    "labels, arrows at the face centres with that cell's components.  Non-trivial: datasets with a hole "
    "before the last cell; permuted dimensions."
    ' Also: a vector component and a scalar taken from a second dataset on the same grid with other coordinate labels.'
    " Datasets also arrive with a history: warmed convention, copy, deep copy, pickle, netCDF round trip, fully chunked (dask), and hand-built conventions for coordinates autodetection would not pick (decoy pair), after warm / pickle. Also (operation sequences, mc/sequences.py): for 8 base datasets and every sequence `first [middle] query` over 36 operations (queries, in-place edits a user makes, transforms whose result is used next; quick length 2, thorough length 3) ending in one of this property's own queries, the answer on the one used object equals the answer on a never-used rebuild. Second phase: the first case of every distinct outcome and kind (thorough: every case, for expensive checks every kind) again with debug logging enabled, under numpy.errstate(all='ignore'), and in python -O child interpreters."
)
LEVEL_TEXT = ("every dataset of the family list x every scalar / vector / override form of the stated menu: patch k, value k "
              "and arrow k compared with the k-th valid cell's reference polygon, label and centre")
LEVEL_NOTE = "matplotlib / cartopy object model trusted (PolyCollection paths, Quiver X/Y/U/V); nothing is rendered"
ASSUMPTIONS = ["matplotlib's Agg backend; PolyCollection.get_paths() returns the vertices that were passed in"]


def bounds(tier):
    return {'datasets': 'builders.family_specs(tier) with defined geometry'}


def _cases_first_call(tier):
    out = []
    for spec in builders.family_specs(tier):
        if spec['family'] == 'cf2d' and spec.get('bounds') == 'derived' and spec.get('holes', 'none') != 'none':
            continue
        if spec['family'] == 'cf1d' and spec.get('bounds', 'none') == 'none' and min(spec['ny'], spec['nx']) < 2:
            continue
        out.append(spec)
    return out


def path_vertices(path):
    return [tuple(float(v) for v in p) for p in path.vertices]


def _run_case_first_call(case):
    import matplotlib
    matplotlib.use('Agg')
    import cartopy.crs
    from matplotlib.figure import Figure

    rec = Recorder()
    ds, truth = builders.build(case)
    convention = ds.ems
    fp = f"C19/{truth.family}"
    polys = ref.ref_polygons(truth)
    own = list(convention.polygons)
    valid = [n for n, p in enumerate(polys) if p is not None]
    nface = len(polys)
    holes = [n for n, p in enumerate(polys) if p is None]
    if holes and holes[0] < nface - 1:
        rec.nontrivial('hole-before-last')
    shift = truth.shift
    time_dim, depth_dim = truth.time_dim, truth.depth_dim
    gdims = tuple(truth.kinds['face']['dims'])

    def labels(vt, extra_index):
        return ref.expected_values(vt, nface, shift)[extra_index].astype('float64')

    def check_collection(label, collection, want_values, clim=None):
        paths = collection.get_paths()
        if not rec.check(len(paths) == len(valid), f"{fp}/patch-count", f"{label}: number of patches", len(valid), len(paths)):
            return
        for k, n in enumerate(valid):
            ring = ref.ring_of(own[n])
            got = path_vertices(paths[k])
            ok = got == ring or got == ring[:-1]
            if not rec.check(ok and own[n].equals(polys[n]), f"{fp}/patch-outline", f"{label}: patch {k} is not the outline of cell {n}", ring, got):
                break
        if want_values is None:
            rec.check(collection.get_array() is None, f"{fp}/unexpected-array", f"{label}: collection has values", None, 'array')
            return
        array = collection.get_array()
        if not rec.check(array is not None and len(array) == len(valid), f"{fp}/value-count", f"{label}: number of values", len(valid),
                         None if array is None else len(array)):
            return
        want = np.asarray([want_values[n] for n in valid], dtype='float64')
        rec.check(ref.same_values(np.ma.filled(np.ma.asarray(array, dtype='float64'), np.nan), want), f"{fp}/value-cell-mismatch",
                  f"{label}: value k is not the value of the k-th cell with geometry", want, np.asarray(array))
        got_clim = tuple(float(v) for v in collection.get_clim())
        if clim is None:
            clim = (float(np.nanmin(want)), float(np.nanmax(want)))
            rec.check(got_clim == clim, f"{fp}/default-clim", f"{label}: default colour limits", clim, got_clim)
        else:
            rec.check(got_clim == tuple(clim), f"{fp}/user-clim-ignored", f"{label}: user colour limits", clim, got_clim)

    def collection_of(label, *args, **kwargs):
        try:
            return lib(convention.make_poly_collection, *args, **kwargs)
        except LibraryRaised as err:
            rec.check(False, f"{fp}/raised", f"{label} raised", 'PolyCollection', str(err))
            return None

    # geometry only
    c = collection_of('no data')
    if c is not None:
        check_collection('no data', c, None)
    botz, eta, temp, perm = truth.vars['botz'], truth.vars['eta'], truth.vars['temp'], truth.vars['perm']
    # by name, as array, with permuted dims
    for label, arg in (('by name', 'botz'), ('as array', ds['botz']),
                       ('permuted dims', ds['botz'].transpose(*gdims[::-1]) if len(gdims) > 1 else ds['botz'])):
        if label == 'permuted dims':
            rec.nontrivial('permuted')
        c = collection_of(label, arg)
        if c is not None:
            check_collection(label, c, labels(botz, ()))
    # an array computed from a variable keeps the variable's name and dimensions, not its values
    c = collection_of('derived array with the name of a variable', ds['botz'] * 2 + 1)
    if c is not None:
        rec.nontrivial('derived-same-name')
        check_collection('derived array with the name of a variable', c, labels(botz, ()) * 2 + 1)
    # another time step of the full dataset, plotted through the convention of the surface / first-step dataset
    if ds.sizes[time_dim] > 1 and not case.get('explicit_names'):
        try:
            surface = ds.isel({time_dim: 0})
            c = lib(surface.ems.make_poly_collection, ds['eta'].isel({time_dim: 1}))
            check_collection('a slice of the full dataset through a sliced dataset', c, labels(eta, (1,)))
        except LibraryRaised as err:
            rec.check(False, f"{fp}/raised", "plotting a slice of the full dataset through a sliced dataset raised", 'PolyCollection', str(err))
    # a variable that describes the range of ALL its values (COARDS / NOAA `actual_range`): a slice has its own limits
    described = ds['eta'].copy()
    described.attrs['actual_range'] = np.array([-1.0e6, 1.0e6])
    described.attrs['valid_range'] = np.array([-2.0e6, 2.0e6])
    c = collection_of('slice of a variable carrying actual_range', described.isel({time_dim: 0}))
    if c is not None:
        rec.nontrivial('actual-range')
        check_collection('slice of a variable carrying actual_range', c, labels(eta, (0,)))
    # a slice of a variable with extra dimensions
    for t in range(ds.sizes[time_dim]):
        c = collection_of(f'eta time {t}', ds['eta'].isel({time_dim: t}))
        if c is not None:
            check_collection(f'eta time {t}', c, labels(eta, (t,)))
    k = ds.sizes[depth_dim] - 1
    c = collection_of('temp slice', ds['temp'].isel({time_dim: 1, depth_dim: k}))
    if c is not None:
        check_collection('temp slice', c, labels(temp, (1, k)))
    # 'perm' has dims (g0, depth, g1.., time): grid dims not adjacent
    c = collection_of('perm slice', ds['perm'].isel({time_dim: 0, depth_dim: 0}))
    if c is not None:
        rec.nontrivial('perm')
        # extras of perm in its own order are (depth, time)
        check_collection('perm slice', c, labels(perm, (0, 0)))
    # overrides
    c = collection_of('user clim', 'botz', clim=(-5.0, 123456.0))
    if c is not None:
        check_collection('user clim', c, labels(botz, ()), clim=(-5.0, 123456.0))
    other_crs = cartopy.crs.Geodetic()
    c = collection_of('user transform', 'botz', transform=other_crs)
    if c is not None:
        rec.check(getattr(c, '_transform', None) is other_crs, f"{fp}/user-transform-ignored",
                  "user transform", 'Geodetic', repr(getattr(c, '_transform', None)))
        check_collection('user transform', c, labels(botz, ()))
    # refusals
    for label, call in (
        ('array= with data array', lambda: convention.make_poly_collection('botz', array=np.zeros(len(valid)))),
        ('leftover time dimension', lambda: convention.make_poly_collection('eta')),
        ('leftover depth dimension', lambda: convention.make_poly_collection(ds['temp'].isel({time_dim: 0}))),
    ):
        try:
            got = lib(call)
            rec.check(False, f"{fp}/not-refused", f"{label}: plotted instead of refused", 'error', type(got).__name__)
        except LibraryRaised:
            rec.step()

    # vectors
    figure = Figure()
    axes = figure.add_subplot(projection=cartopy.crs.PlateCarree())
    centres = np.asarray(convention.face_centres, dtype='float64')
    u = ds['eta'].isel({time_dim: 0})
    v = ds['eta'].isel({time_dim: 1})
    for label, args in (('vector arrays', (u, v)), ('vector permuted', (u.transpose(*gdims[::-1]), v.transpose(*gdims[::-1])) if len(gdims) > 1 else (u, v))):
        try:
            quiver = lib(convention.make_quiver, axes, *args)
        except LibraryRaised as err:
            rec.check(False, f"{fp}/quiver-raised", f"{label} raised", 'Quiver', str(err))
            continue
        x = np.ma.filled(np.ma.asarray(quiver.X, dtype='float64'), np.nan)
        y = np.ma.filled(np.ma.asarray(quiver.Y, dtype='float64'), np.nan)
        rec.check(ref.same_values(x, centres[:, 0]) and ref.same_values(y, centres[:, 1]), f"{fp}/arrows-not-at-centres",
                  f"{label}: arrow positions", centres[:4], list(zip(x[:4], y[:4])))
        gu = np.ma.filled(np.ma.asarray(quiver.U, dtype='float64'), np.nan)
        gv = np.ma.filled(np.ma.asarray(quiver.V, dtype='float64'), np.nan)
        rec.check(ref.same_values(gu, labels(eta, (0,))) and ref.same_values(gv, labels(eta, (1,))), f"{fp}/arrow-components",
                  f"{label}: arrow k does not carry the components of cell k", labels(eta, (0,))[:6], gu[:6])
    # a component taken from a second dataset on the same grid (same dimensions, other coordinate labels):
    # values are paired with cells by position
    other_spec = dict(case)
    other_spec.update({'seed': case.get('seed', 0) + 3, 'lon0': case.get('lon0', 0.0 if case['family'] == 'ugrid' else 10.0) + 5.0})
    other, other_truth = builders.build(other_spec)
    other_labels = ref.expected_values(other_truth.vars['eta'], nface, other_truth.shift)[1].astype('float64')
    try:
        quiver = lib(convention.make_quiver, axes, u, other['eta'].isel({time_dim: 1}))
        gu = np.ma.filled(np.ma.asarray(quiver.U, dtype='float64'), np.nan)
        gv = np.ma.filled(np.ma.asarray(quiver.V, dtype='float64'), np.nan)
        rec.check(ref.same_values(gu, labels(eta, (0,))) and ref.same_values(gv, other_labels), f"{fp}/arrow-components",
                  "vector with one component from a second dataset on the same grid", other_labels[:6], gv[:6])
        c = collection_of('scalar from a second dataset', other['eta'].isel({time_dim: 1}))
        if c is not None:
            check_collection('scalar from a second dataset', c, other_labels)
    except LibraryRaised as err:
        rec.check(False, f"{fp}/quiver-raised", "vector with a component from a second dataset raised", 'Quiver', str(err))
    for label, call in (
        ('vector with leftover dimension', lambda: convention.make_quiver(axes, ds['eta'], ds['eta'])),
        ('vector components with different dims', lambda: convention.make_quiver(axes, u, ds['botz'].transpose(*gdims[::-1]) if len(gdims) > 1 else ds['eta'])),
    ):
        try:
            got = lib(call)
            rec.check(False, f"{fp}/not-refused", f"{label}: plotted instead of refused", 'error', type(got).__name__)
        except LibraryRaised:
            rec.step()

    # animation frames: every time step shows that step's values on the cells that have geometry
    try:
        figure = Figure()
        animation = lib(convention.animate_on_figure, figure, scalar='eta', coast=False, gridlines=False)
        collection = [c for c in figure.axes[0].collections if hasattr(c, 'get_paths') and len(c.get_paths()) == len(valid)]
        if rec.check(len(collection) >= 1, f"{fp}/animation-collection", "animation has no polygon collection", 1, len(collection)):
            for t in range(ds.sizes[time_dim]):
                animation._func(t)
                array = np.ma.filled(np.ma.asarray(collection[0].get_array(), dtype='float64'), np.nan)
                want = labels(eta, (t,))[valid]
                rec.check(ref.same_values(array, want), f"{fp}/animation-frame", f"animation frame {t}", want, array)
            all_values = np.stack([labels(eta, (t,))[valid] for t in range(ds.sizes[time_dim])])
            got_clim = tuple(float(v) for v in collection[0].get_clim())
            rec.check(got_clim == (float(np.nanmin(all_values)), float(np.nanmax(all_values))), f"{fp}/animation-clim",
                      "animation colour limits", (float(np.nanmin(all_values)), float(np.nanmax(all_values))), got_clim)
        try:
            animation._stop()
        except Exception:  # noqa: BLE001
            pass
    except LibraryRaised as err:
        rec.check(False, f"{fp}/animation-raised", "animate_on_figure raised", 'animation', str(err))
    # a plain plot made after an animation in the same process: its own values, its own limits
    try:
        figure = Figure()
        lib(convention.plot_on_figure, figure, ds['botz'], coast=False, gridlines=False)
        collections = [c for axes in figure.axes for c in axes.collections if hasattr(c, 'get_paths') and len(c.get_paths()) == len(valid)]
        if rec.check(len(collections) >= 1, f"{fp}/plot-collection", "plot_on_figure after an animation: no polygon collection", 1, len(collections)):
            values = np.asarray([labels(botz, ())[n] for n in valid], dtype='float64')
            if np.nanmin(values) == np.nanmax(values):
                # (matplotlib's colour bar widens a range of zero width by itself)
                check_collection('plot_on_figure after an animation', collections[0], labels(botz, ()), clim=collections[0].get_clim())
            else:
                check_collection('plot_on_figure after an animation', collections[0], labels(botz, ()))
    except LibraryRaised as err:
        rec.check(False, f"{fp}/raised", "plot_on_figure after an animation raised", 'figure', str(err))
    rec.outcome([truth.family, nface, len(holes)])
    return rec.result()


def cases(tier):
    # first calls on freshly built datasets, then operation sequences on one object (mc/sequences.py)
    return _cases_first_call(tier) + sequences.cases_for(PROPERTY, tier)


def run_case(case):
    if case.get('part') == 'sequence':
        rec = Recorder()
        sequences.run_case(PROPERTY, case, rec)
        return rec.result()
    return _run_case_first_call(case)
