"""C10 -- mesh topology is independent of encoding and internally consistent."""
from __future__ import annotations

import itertools

import numpy as np

from .. import builders, env, ref, sequences
from ..runner import LibraryRaised, Recorder, lib

PROPERTY = 'C10'
TITLE = 'Mesh topology is independent of encoding and internally consistent'
RULE = (
    "One case per encoding of a mesh: mesh library x {0,1}-based x {float NaN, integer with _FillValue "
    "attribute / plain integers where nothing is missing} x {normal, transposed} x every subset of "
    "{edge_node, face_edge, edge_face, face_face} supplied (valid but deliberately non-canonical edge "
    "numbering) x edge dimension {declared, implied, absent} x coordinates {plain, xarray coordinate}; a "
    "slice of them also written to netCDF and reopened.  Oracle: face_node_array/polygons identical to "
    "the builder's faces for every encoding; supplied tables returned as given; derived tables satisfy "
    "their definition relative to the tables they are derived from.  Non-trivial: encodings differing "
    "from the plain one in >= 2 factors."
    ' Also: fill value 0 with one-based indexes, mesh M10 with unused nodes, dataset purity and a second topology object on the same dataset and on a copy; thorough: one 49284-node mesh with derived tables only.'
    " Datasets also arrive with a history: warmed convention, copy, deep copy, pickle, netCDF round trip, fully chunked (dask), and hand-built conventions for coordinates autodetection would not pick (decoy pair), after warm / pickle. Also (operation sequences, mc/sequences.py): for 8 base datasets and every sequence `first [middle] query` over 36 operations (queries, in-place edits a user makes, transforms whose result is used next; quick length 2, thorough length 3) ending in one of this property's own queries, the answer on the one used object equals the answer on a never-used rebuild. Second phase: the first case of every distinct outcome and kind (thorough: every case, for expensive checks every kind) again with debug logging enabled, under numpy.errstate(all='ignore'), and in python -O child interpreters."
)
LEVEL_TEXT = ("every encoding in the stated product for every mesh of the library (~400 encodings per mesh): normalised "
              "face-node table and polygons equal the builder's faces; supplied tables as given; derived tables by "
              "definition modulo edge numbering")
LEVEL_NOTE = ("transposed tables are generated together with the face/edge_dimension attributes the UGRID text requires; "
              "no second size-2 dimension ahead of 'Two'; meshes limited to the library M1..M9")
ASSUMPTIONS = [
    "without any edge dimension the edge-based tables cannot be derived; a NoEdgeDimensionException is accepted there",
    "a derived table is judged relative to the (supplied or derived) tables it is derived from",
]


def bounds(tier):
    return {'meshes': 'M1 M4 M6 M8' if tier == 'quick' else 'M1..M9',
            'factors': 'start_index x fill x transposed x 16 supplied subsets x edge-dimension mode x coords'}


def subsets(items):
    for r in range(len(items) + 1):
        for combo in itertools.combinations(items, r):
            yield list(combo)


def _cases_first_call(tier):
    meshes = ['M1', 'M4', 'M6', 'M8', 'M14'] if tier == 'quick' else ['M1', 'M2', 'M3', 'M4', 'M5', 'M6', 'M7', 'M8', 'M9', 'M10', 'M14', 'M15']
    out = []
    for mesh in meshes:
        for start_index, fill, transposed, coords_as in itertools.product((0, 1), ('nan', 'fillattr'), (False, True), ('var', 'coord')):
            for supplied in subsets(builders.OPTIONAL_TABLES):
                has_edge_table = 'edge_node' in supplied or 'edge_face' in supplied
                modes = ['declared']
                if has_edge_table and not transposed:
                    modes.append('implied')
                if not has_edge_table:
                    modes.append('absent')
                for mode in modes:
                    spec = {'family': 'ugrid', 'mesh': mesh, 'start_index': start_index, 'fill': fill,
                            'transposed': transposed, 'supplied': supplied, 'edge_dim': mode, 'coords_as': coords_as}
                    out.append(spec)
                    if coords_as == 'var' and not transposed and mode == 'declared' and len(supplied) in (0, 2, 4):
                        out.append({**spec, 'io': 'reopen'})
                    if start_index == 1 and fill == 'fillattr' and coords_as == 'var':
                        out.append({**spec, 'fill_value': 0})
                    if coords_as == 'var' and supplied:
                        # each supplied table with its own index base (the face-node table keeps the other one)
                        other = 1 - start_index
                        out.append({**spec, 'start_index_by_table': {name: other for name in supplied}, 'omit_zero_start_index': bool(len(supplied) % 2)})
                    if coords_as == 'var' and mode == 'declared':
                        out.append({**spec, 'extra_width': 1})
                    if 'edge_face' in supplied and coords_as == 'var':
                        out.append({**spec, 'edge_face_missing_first': True})
    # the dimension of length two of the edge tables under another name, on meshes and datasets where other
    # dimensions have length two as well (two faces; two time steps; two layers)
    for mesh in (['M1', 'M4'] if tier == 'quick' else ['M1', 'M2', 'M4', 'M6']):
        for supplied in (['edge_node'], ['edge_face'], ['edge_node', 'edge_face'], list(builders.OPTIONAL_TABLES)):
            for nt, nk in ((2, 3), (3, 2), (1, 1)):
                for transposed in (False, True):
                    out.append({'family': 'ugrid', 'mesh': mesh, 'start_index': 1, 'fill': 'fillattr', 'transposed': transposed,
                                'supplied': supplied, 'edge_dim': 'declared', 'coords_as': 'var', 'two_dim': 'nv', 'nt': nt, 'nk': nk})
                    if not transposed:
                        out.append({'family': 'ugrid', 'mesh': mesh, 'start_index': 0, 'fill': 'nan', 'transposed': False,
                                    'supplied': supplied, 'edge_dim': 'implied', 'coords_as': 'var', 'two_dim': 'nv', 'nt': nt, 'nk': nk,
                                    'io': 'reopen'})
    # face tables whose padding dimension has a name of its own
    for mesh in (['M4', 'M6'] if tier == 'quick' else ['M4', 'M5', 'M6', 'M7']):
        for supplied in (['face_edge', 'edge_face'], ['face_face'], list(builders.OPTIONAL_TABLES)):
            for transposed in (False, True):
                out.append({'family': 'ugrid', 'mesh': mesh, 'start_index': 1, 'fill': 'fillattr', 'transposed': transposed,
                            'supplied': supplied, 'edge_dim': 'declared', 'coords_as': 'var',
                            'face_edge_dim': 'nMaxMesh2_face_edges', 'face_face_dim': 'nMaxMesh2_face_links'})
    # topologies of datasets that have been used, copied, pickled, saved or chunked before
    for mesh in (['M6'] if tier == 'quick' else ['M4', 'M6', 'M7']):
        for history in ([h['history'] for h in builders.history_specs(tier) if h['family'] == 'ugrid']):
            for supplied in ([], ['face_face'], list(builders.OPTIONAL_TABLES)):
                out.append({'family': 'ugrid', 'mesh': mesh, 'start_index': 1, 'fill': 'fillattr', 'transposed': False,
                            'supplied': supplied, 'edge_dim': 'declared', 'coords_as': 'var', 'history': history})
    if tier == 'thorough':
        # one mesh above 46341 nodes (node count squared exceeds int32): derived tables only
        nodes, faces = builders._lattice_mesh(222, 222)
        out.append({'family': 'ugrid', 'mesh': 'lattice-222x222', 'nodes': nodes, 'faces': faces, 'nt': 1, 'nk': 1,
                    'start_index': 0, 'fill': 'nan', 'transposed': False, 'supplied': [], 'edge_dim': 'declared', 'coords_as': 'var'})
        # ... and one above 65536 nodes (node count squared exceeds uint32)
        nodes, faces = builders._lattice_mesh(262, 262)
        out.append({'family': 'ugrid', 'mesh': 'lattice-262x262', 'nodes': nodes, 'faces': faces, 'nt': 1, 'nk': 1,
                    'start_index': 1, 'fill': 'fillattr', 'transposed': False, 'supplied': [], 'edge_dim': 'declared', 'coords_as': 'var'})
    return out


def masked_rows(array) -> list:
    """Masked 2-D integer array -> list of rows with None for masked entries."""
    data = np.ma.getdata(array)
    mask = np.ma.getmaskarray(array)
    return [[None if m else int(v) for v, m in zip(row, mrow)] for row, mrow in zip(data, mask)]


def pad(rows, width):
    return [list(r) + [None] * (width - len(r)) for r in rows]


def _run_case_first_call(case):
    rec = Recorder()
    spec = {k: v for k, v in case.items() if k != 'io'}
    ds, truth = builders.build(spec)
    differs = sum([case['start_index'] == 1, case['fill'] == 'fillattr', case['transposed'],
                   bool(case['supplied']), case['coords_as'] == 'coord', case.get('io') == 'reopen'])
    if differs >= 2:
        rec.nontrivial(True)
    with env.scratch_dir() as tmp:
        if case.get('io') == 'reopen':
            ds = builders.reopen(ds, tmp)
        out = check(rec, case, ds, truth)
        ds.close()
    return out


def check(rec, case, ds, truth):
    fp = "C10/ugrid"
    snapshot = ds.copy(deep=True)
    check_once(rec, case, ds, truth, fp)
    # normalising the topology must not write through to the dataset: the same dataset, looked at again
    # through a fresh convention object (and through a copy), must give the same topology
    rec.check(ds.identical(snapshot), f"{fp}/dataset-modified", "reading the topology modified the dataset", 'unchanged', 'changed')
    from emsarray.conventions.ugrid import Mesh2DTopology
    for label, other in (('second helper', ds), ('shallow copy', ds.copy())):
        try:
            again = masked_rows(lib(lambda: Mesh2DTopology(other).face_node_array))
            rec.check(again == pad(truth.faces, truth.width), f"{fp}/second-look-differs",
                      f"face_node_array seen through a {label} after the first use", pad(truth.faces, truth.width)[:3], again[:3])
        except LibraryRaised as err:
            rec.check(False, f"{fp}/second-look-differs", f"{label} raised", 'array', str(err))
    return rec.result()


def check_once(rec, case, ds, truth, fp):
    from emsarray.conventions.ugrid import NoEdgeDimensionException
    try:
        convention = lib(lambda: ds.ems)
        topology = lib(lambda: convention.topology)
        face_node = lib(lambda: topology.face_node_array)
    except LibraryRaised as err:
        rec.check(False, f"{fp}/topology-raised", "dataset.ems.topology.face_node_array raised", 'topology', str(err))
        return rec.result()

    faces = truth.faces
    width = truth.width
    nface, nnode = len(faces), len(truth.nodes)
    supplied = set(case['supplied'])
    has_edges = case['edge_dim'] in ('declared', 'implied')
    tables = truth.tables
    nedge = len(tables['edge_node'])

    tables = truth.tables
    rec.check(masked_rows(face_node) == pad(faces, width), f"{fp}/face-node-differs",
              "normalised face_node_array differs from the mesh's faces", pad(faces, width), masked_rows(face_node))
    try:
        counts = [lib(lambda: topology.face_count), lib(lambda: topology.node_count), lib(lambda: topology.max_node_count)]
        rec.check(counts == [nface, nnode, width], f"{fp}/counts", "face/node/max-node counts", [nface, nnode, width], counts)
        rec.check(bool(lib(lambda: topology.has_edge_dimension)) == has_edges, f"{fp}/has-edge-dimension",
                  "has_edge_dimension", has_edges, bool(topology.has_edge_dimension))
    except LibraryRaised as err:
        rec.check(False, f"{fp}/counts-raised", "count properties raised", 'counts', str(err))

    try:
        polygons = lib(lambda: convention.polygons)
        ok = len(polygons) == nface and all(
            ref.polygon_matches(polygons[n], truth.polygons[n], 'sequence') for n in range(nface))
        rec.check(ok, f"{fp}/polygons-differ", "polygons differ from the mesh's faces", truth.polygons[:2],
                  [None if p is None else ref.ring_of(p) for p in polygons[:2]])
    except LibraryRaised as err:
        rec.check(False, f"{fp}/polygons-raised", "polygons raised", 'polygons', str(err))

    def fetch(name):
        try:
            return masked_rows(lib(lambda: getattr(topology, name)))
        except LibraryRaised as err:
            if isinstance(err.exc, NoEdgeDimensionException) and not has_edges:
                rec.step()
                return None
            rec.check(False, f"{fp}/{name}-raised", f"topology.{name} raised", 'array', str(err))
            return None

    edge_node = fetch('edge_node_array')
    face_edge = fetch('face_edge_array')
    edge_face = fetch('edge_face_array')
    face_face = fetch('face_face_array')

    if has_edges:
        try:
            rec.check(lib(lambda: topology.edge_count) == nedge, f"{fp}/edge-count", "edge_count", nedge, topology.edge_count)
        except LibraryRaised as err:
            rec.check(False, f"{fp}/edge-count-raised", "edge_count raised", nedge, str(err))

    # supplied tables come back exactly as supplied
    given = {
        'edge_node': (edge_node, tables['edge_node'], 2), 'face_edge': (face_edge, tables['face_edge'], width),
        'edge_face': (edge_face, tables['edge_face'], 2), 'face_face': (face_face, tables['face_face'], width),
    }
    for name in supplied:
        got, want, w = given[name]
        if name in ('edge_node', 'edge_face') and not has_edges:
            continue
        if got is not None:
            rec.check(got == pad(want, w), f"{fp}/supplied-{name}-not-as-given", f"supplied {name} table not used as given",
                      pad(want, w)[:4], got[:4])

    # derived tables, relative to what they are derived from
    pairs_of_face = [[frozenset((f[k], f[(k + 1) % len(f)])) for k in range(len(f))] for f in faces]
    all_pairs = {p for ps in pairs_of_face for p in ps}
    if edge_node is not None and 'edge_node' not in supplied:
        got_pairs = [frozenset(r) for r in edge_node]
        rec.check(len(got_pairs) == len(all_pairs) and set(got_pairs) == all_pairs and all(None not in r for r in edge_node),
                  f"{fp}/derived-edge-node", "derived edge_node is not the set of consecutive node pairs",
                  sorted(map(sorted, all_pairs))[:6], edge_node[:6])
    if face_edge is not None and 'face_edge' not in supplied and edge_node is not None:
        ok = len(face_edge) == nface
        for f, row in enumerate(face_edge if ok else []):
            n = len(faces[f])
            for k in range(width):
                if k < n:
                    e = row[k]
                    if e is None or not (0 <= e < len(edge_node)) or frozenset(edge_node[e]) != pairs_of_face[f][k]:
                        ok = False
                elif row[k] is not None:
                    ok = False
        rec.check(ok, f"{fp}/derived-face-edge", "derived face_edge: edge k of a face is not its k-th consecutive node pair",
                  'edge with node pair {fn[f][k], fn[f][k+1]}', face_edge[:3])
    if edge_face is not None and 'edge_face' not in supplied and face_edge is not None:
        count = len(edge_face)
        ok = True
        faces_of_edge: dict = {}
        for f, row in enumerate(face_edge):
            for v in row:
                if v is not None:
                    faces_of_edge.setdefault(v, set()).add(f)
        for e in range(count):
            want = faces_of_edge.get(e, set())
            got = [v for v in edge_face[e] if v is not None]
            if set(got) != want or len(got) != len(want):
                ok = False
        expected_count = len(edge_node) if edge_node is not None else count
        rec.check(ok and count == expected_count, f"{fp}/derived-edge-face", "derived edge_face: an edge does not list exactly the faces containing it",
                  'faces containing the edge', edge_face[:4])
    if face_face is not None and 'face_face' not in supplied:
        ok = len(face_face) == nface
        faces_of_pair: dict = {}
        for f, pairs in enumerate(pairs_of_face):
            for pair in pairs:
                faces_of_pair.setdefault(pair, set()).add(f)
        adjacency = []
        for f in range(nface):
            want = set()
            for pair in pairs_of_face[f]:
                want |= faces_of_pair[pair]
            want.discard(f)
            adjacency.append(want)
        for f, row in enumerate(face_face if ok else []):
            got = [v for v in row if v is not None]
            # a neighbour across two shared edges may legitimately be listed once per edge
            if set(got) != adjacency[f]:
                ok = False
        rec.check(ok, f"{fp}/derived-face-face", "derived face_face is not 'shares an edge' (symmetric)",
                  [sorted(a) for a in adjacency][:4], face_face[:4])
    rec.outcome([case['mesh'], case['edge_dim'], sorted(supplied), edge_node is not None])
    return rec.result()


def cases(tier):
    # first calls on freshly built datasets, then operation sequences on one object (mc/sequences.py)
    return _cases_first_call(tier) + sequences.cases_for(PROPERTY, tier)


def run_case(case):
    if case.get('part') == 'sequence':
        rec = Recorder()
        sequences.run_case(PROPERTY, case, rec)
        return rec.result()
    return _run_case_first_call(case)
