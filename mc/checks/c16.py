"""C16 -- the geometry cache key depends on the geometry and on nothing else."""
from __future__ import annotations

import itertools
import json
import os
import subprocess
import sys

import numpy as np
import xarray as xr

from .. import builders, env
from ..runner import LibraryRaised, Recorder, lib

PROPERTY = 'C16'
TITLE = 'The geometry cache key depends on the geometry and on nothing else'
RULE = (
    "Value level: one case per dataset spec of every family; inside, every non-geometry edit {other data "
    "values, add / remove / rename a data variable, more time steps, global attributes} must keep the key "
    "and every single geometry edit {one value of each geometry variable, float64->float32, same bytes in "
    "another shape, rename, attribute added / changed / removed on each geometry variable in turn, two "
    "attribute values swapped, another convention class} must change it and give pairwise different "
    "keys; every variant is built from scratch from its spec.  The whole key table is recomputed in child "
    "interpreters with PYTHONHASHSEED in {0..5, 12345, random} and must be identical.  History level: "
    "every history of length <= 3 (quick) / 4 (thorough) over {key(d), d.copy(), d.copy(deep=True), hold a "
    "reference to an attribute value, assign a data variable, key(latest copy)}, replayed from scratch on "
    "datasets built in memory and on datasets written to netCDF and reopened: every key must equal the "
    "key of the untouched dataset.  Non-trivial: pairs differing in exactly one geometry feature; "
    "histories with an identity-changing operation between two keys."
    ' Also: bounds held as coordinates, Fortran-ordered geometry arrays, first- and last-element edits of geometry variables larger than 1 MiB (420x400 grid).'
    " Second phase: the first case of every distinct outcome and kind (thorough: every case, for expensive checks every kind) again with debug logging enabled, under numpy.errstate(all='ignore'), and in python -O child interpreters."
)
LEVEL_TEXT = ("complete edit tables (equal / different pattern) for every family, recomputed under 4 hash seeds in fresh "
              "interpreters, plus every key/copy/hold/assign history to depth 3/4 in two object-identity regimes")
LEVEL_NOTE = ("blake2b collisions are ignored; the known finding about object identity (marshal v4) is listed in "
              "known_findings.json with its fingerprint")
ASSUMPTIONS = ["two different digests mean two different keys; hash collisions are out of scope"]


SPECS = [
    {'family': 'cf1d', 'ny': 2, 'nx': 3, 'bounds': 'var'},
    {'family': 'cf1d', 'ny': 2, 'nx': 3, 'bounds': 'coord', 'names': 'other'},
    # geometry variables larger than 1 MiB: edits far from the start of the array
    {'family': 'cf2d', 'ny': 420, 'nx': 400, 'bounds': 'derived', 'nt': 1, 'nk': 1, 'big': True},
    {'family': 'cf2d', 'ny': 2, 'nx': 3, 'geometry': 'skew'},
    {'family': 'shoc_simple', 'ny': 2, 'nx': 2},
    {'family': 'shoc_standard', 'nj': 2, 'ni': 2},
    {'family': 'ugrid', 'mesh': 'M4', 'supplied': ['edge_node', 'face_edge'], 'fill': 'fillattr', 'start_index': 1},
    {'family': 'ugrid', 'mesh': 'M6', 'face_coords': True, 'face_bounds': True, 'coords_as': 'coord'},
]


def bounds(tier):
    return {'specs': len(SPECS), 'hash_seeds': ['0', '1', '2', '3', '4', '5', '12345', 'random'], 'history_depth': 3 if tier == 'quick' else 4}


def environment_key(case, outcome):
    # the second phase (other process environments): one table and one history search per family and regime
    return (case['part'], (case.get('spec') or {}).get('family'), case.get('regime'), case.get('first', 0) % 2)


ENVIRONMENTS_ON_REPRESENTATIVES_ONLY = True


def environment_skip(case):
    # the size canary and the hash-seed children are one large instance each, not a kind of behaviour
    return bool((case.get('spec') or {}).get('big')) or case.get('part') == 'seeds'


def cases(tier):
    out = [{'part': 'table', 'spec': spec} for spec in SPECS]
    out.append({'part': 'seeds'})
    depth = 3 if tier == 'quick' else 4
    for spec in [spec for spec in SPECS if not spec.get('big')]:
        for regime in ('memory', 'file'):
            for first in range(len(HISTORY_OPS)):
                out.append({'part': 'history', 'spec': spec, 'regime': regime, 'depth': depth, 'first': first})
    return out


# ------------------------------------------------------------------------------------ value level


def geometry_names(ds):
    return [str(n) for n in ds.ems.get_all_geometry_names()]


def variants(spec):
    """Yields (label, kind in {'same', 'differ'}, dataset) -- each built from scratch."""
    def fresh(**overrides):
        return builders.build({**spec, **overrides})[0]

    yield 'base', 'same', fresh()
    yield 'other-data-values', 'same', fresh(seed=3)
    ds = fresh()
    ds['extra_variable'] = ds['botz'] * 2
    yield 'add-data-variable', 'same', ds
    yield 'remove-data-variable', 'same', fresh().drop_vars(['eta'])
    yield 'rename-data-variable', 'same', fresh().rename({'eta': 'surface'})
    yield 'more-time-steps', 'same', fresh(nt=3)
    ds = fresh()
    ds.attrs['title'] = 'something else'
    ds.attrs['history'] = 'edited'
    yield 'global-attributes', 'same', ds

    names = geometry_names(fresh())
    # the same values held in another memory layout (as after .T, transpose(), meshgrid(indexing='ij'))
    ds = fresh()
    changed = False
    for name in names:
        if ds[name].ndim >= 2:
            was_coord = name in ds.coords
            ds[name] = (ds[name].dims, np.asfortranarray(ds[name].values), ds[name].attrs)
            if was_coord:
                ds = ds.set_coords(name)
            changed = True
    if changed:
        yield 'fortran-memory-order', 'same', ds
    for name in names:
        for which in ('one-value', 'last-value'):
            ds = fresh()
            var = ds[name]
            if var.ndim == 0:
                continue
            values = var.values.copy()
            flat = values.reshape(-1)
            finite = np.flatnonzero(~np.isnan(flat.astype('float64')))
            index = int(finite[0] if which == 'one-value' else finite[-1])
            flat[index] = flat[index] + 1
            was_coord = name in ds.coords
            ds[name] = (var.dims, values, var.attrs)
            if was_coord:
                ds = ds.set_coords(name)
            yield f'{which}:{name}', 'differ', ds
    if spec.get('big'):
        yield 'other-convention-class', 'differ-class', fresh()
        return
    for name in names:
        base = fresh()
        if base[name].dtype == np.float64:
            ds = fresh()
            ds[name] = (base[name].dims, base[name].values.astype('float32'), base[name].attrs)
            if name in base.coords:
                ds = ds.set_coords(name)
            yield f'dtype:{name}', 'differ', ds
    for name in names:
        base = fresh()
        attrs = dict(base[name].attrs)
        ds = fresh()
        ds[name].attrs['extra_attribute'] = 'added'
        yield f'attr-added:{name}', 'differ', ds
        # array-valued attributes (actual_range, valid_range, per-cell tables): every element and the element type count
        for label, value in (('range-a', np.array([142.0, 154.0])), ('range-b', np.array([142.0, 154.0000000004])),
                             ('range-int', np.array([142, 154], dtype='int16')),
                             ('table-a', np.arange(1500.0)), ('table-b', np.where(np.arange(1500) == 700, -1.0, np.arange(1500.0)))):
            ds = fresh()
            ds[name].attrs['described_range'] = value
            yield f'array-attr-{label}:{name}', 'differ', ds
        # attribute names with a leading underscore (netCDF-Java's _CoordinateAxisType and friends) are attributes too
        for value in ('Lon', 'GeoX'):
            ds = fresh()
            ds[name].attrs['_CoordinateAxisType'] = value
            yield f'underscore-attr-{value}:{name}', 'differ', ds
        if attrs:
            # an attribute whose value does not decide which convention / topology the dataset has
            key = 'long_name' if 'long_name' in attrs else sorted(attrs)[0]
            ds = fresh()
            ds[name].attrs[key] = 'changed' if isinstance(attrs[key], str) else attrs[key] + 1
            yield f'attr-changed:{name}', 'differ', ds
            ds = fresh()
            del ds[name].attrs[key]
            yield f'attr-removed:{name}', 'differ', ds
        text = [k for k in ('long_name', 'units') if isinstance(attrs.get(k), str)]
        if len(text) >= 2 and attrs[text[0]] != attrs[text[1]] and attrs.get('standard_name'):
            ds = fresh()
            ds[name].attrs[text[0]], ds[name].attrs[text[1]] = attrs[text[1]], attrs[text[0]]
            yield f'attr-swapped:{name}', 'differ', ds
    # rename one geometry variable (kept recognisable through its attributes / the mesh attributes)
    rename = {'cf1d': 'lon_bnds', 'cf2d': 'lat', 'shoc_simple': 'longitude', 'ugrid': 'Mesh2_node_x'}.get(spec['family'])
    if rename is not None:
        ds = fresh().rename({rename: rename + '_renamed'})
        for holder in ds.variables.values():
            for key, value in list(holder.attrs.items()):
                if key not in ('standard_name', 'long_name', 'units') and isinstance(value, str) and rename in value.split():
                    holder.attrs[key] = ' '.join(rename + '_renamed' if part == rename else part for part in value.split())
        yield f'rename:{rename}', 'differ', ds
    if spec['family'] == 'cf1d':
        # same bytes, another shape
        ds = fresh()
        values = ds['lon_bnds'].values
        ds['lon_bnds'] = (('bnds', ds['lon_bnds'].dims[0]), values.reshape(values.shape[::-1]), ds['lon_bnds'].attrs)
        yield 'same-bytes-other-shape:lon_bnds', 'differ', ds
    yield 'other-convention-class', 'differ-class', fresh()
    yield 'convention-class-in-main', 'differ-class-main', fresh()


def compute_key(ds, other_class=False):
    from emsarray.operations.cache import make_cache_key
    if other_class:
        base = type(ds.ems)
        ds = ds.copy()
        module = '__main__' if other_class == 'main' else 'somewhere.else'
        renamed = type('RenamedConvention', (base,), {'__module__': module})
        renamed(ds).bind()
    import warnings
    with warnings.catch_warnings():
        warnings.simplefilter('ignore')
        return make_cache_key(ds)


def key_table(spec) -> dict:
    table = {}
    for label, kind, ds in variants(spec):
        try:
            table[label] = [kind, lib(compute_key, ds, 'main' if kind == 'differ-class-main' else kind == 'differ-class')]
        except LibraryRaised as err:
            table[label] = [kind, f'raised {err}']
    return table


def run_table(case, rec):
    spec = case['spec']
    fp = f"C16/value/{spec['family']}"
    table = key_table(spec)
    base = table['base'][1]
    rec.check(isinstance(base, str) and not base.startswith('raised'), f"{fp}/raised", "make_cache_key raised", 'key', base)
    seen = {base: 'base'}
    for label, (kind, key) in table.items():
        if label == 'base':
            continue
        if key.startswith('raised'):
            rec.check(False, f"{fp}/raised", f"{label}: make_cache_key raised", 'key', key)
            continue
        edit = label.split(':')[0]
        if kind == 'same':
            rec.check(key == base, f"{fp}/non-geometry-edit-changes-key/{edit}", f"{label}: key changed although the geometry is the same", base, key)
        else:
            rec.nontrivial(label)
            rec.check(key != base, f"{fp}/geometry-edit-keeps-key/{edit}", f"{label}: key unchanged although the geometry differs", 'a different key', key)
            if key != base:
                rec.check(key not in seen, f"{fp}/two-edits-same-key", f"{label} and {seen.get(key)} give the same key", 'distinct keys', key)
                seen.setdefault(key, label)
    rec.outcome([spec['family'], len(table)])


def run_seeds(case, rec):
    fp = "C16/value/process"
    procs = {}
    for seed in ('0', '1', '2', '3', '4', '5', '12345', 'random'):
        child_env = dict(os.environ)
        child_env['PYTHONHASHSEED'] = seed
        child_env['PYTHONPATH'] = env.VERIF
        procs[seed] = subprocess.Popen([sys.executable, '-m', 'mc.checks.c16'], stdout=subprocess.PIPE, stderr=subprocess.PIPE,
                                       text=True, env=child_env, cwd=env.VERIF)
    tables = {}
    for seed, proc in procs.items():
        out, err = proc.communicate(timeout=900)
        if proc.returncode != 0:
            raise RuntimeError(f"C16 child (hash seed {seed}) failed: {err[-2000:]}")
        tables[seed] = json.loads(out.strip().splitlines()[-1])
    reference = tables['0']
    in_process = {json.dumps(spec, sort_keys=True): key_table(spec) for spec in SPECS if not spec.get('big')}
    for seed, table in list(tables.items()) + [('in-process', in_process)]:
        rec.nontrivial(seed)
        for spec_key, entries in reference.items():
            for label, (kind, key) in entries.items():
                other = table.get(spec_key, {}).get(label, [None, None])[1]
                rec.check(other == key, f"{fp}/key-differs-between-processes", f"{label} of {spec_key}: hash seed 0 vs {seed}", key, other)
    rec.outcome(['seeds', len(tables)])


# ---------------------------------------------------------------------------------- history level

HISTORY_OPS = ('key', 'copy', 'deepcopy', 'hold', 'assign', 'keycopy', 'edit')


def run_history(case, rec):
    spec, regime, depth = case['spec'], case['regime'], case['depth']
    fp = f"C16/history/{regime}"
    with env.scratch_dir() as tmp:
        path = os.path.join(tmp, 'source.nc')
        if regime == 'file':
            builders.build(spec)[0].to_netcdf(path)

        def fresh():
            if regime == 'file':
                return xr.open_dataset(path)
            return builders.build(spec)[0]

        reference_ds = fresh()
        reference = compute_key(reference_ds)
        reference_ds.close()

        def run(history):
            ds = fresh()
            keep = []          # objects kept alive by the "user"
            copies = []
            identity_op = False
            epoch = 0                      # number of in-place geometry edits so far
            seen = {}                      # epoch -> keys computed for content of that epoch
            for step, op in enumerate(history):
                if op in ('key', 'keycopy'):
                    target, target_epoch = (ds, epoch) if op == 'key' or not copies else copies[-1]
                    key = compute_key(target)
                    rec.step()
                    stale = [e for e, keys in seen.items() if e != target_epoch and key in keys]
                    seen.setdefault(target_epoch, set()).add(key)
                    if stale:
                        rec.fail(f"{fp}/key-unchanged-after-geometry-edit", f"history {history}: the key at step {step} is the key computed "
                                 f"before the geometry was edited in place", 'another key', key)
                        break
                    if target_epoch != 0:
                        continue           # which key an edited dataset gets is the business of the edit tables
                if op == 'edit':
                    name = geometry_names(ds)[0]
                    epoch += 1
                    ds[name].attrs['survey_revision'] = f'revision {epoch}'
                    rec.nontrivial(('edit', history))
                    continue
                if op == 'key':
                    if key != reference:
                        which = 'key-depends-on-object-identity' if identity_op else 'key-not-repeatable'
                        rec.fail(f"{fp}/{which}", f"history {history}: key at step {step} differs from the key of the untouched dataset "
                                 f"although only content-preserving operations ({[o for o in history[:step] if o != 'key']}) happened",
                                 reference, key)
                        break
                elif op == 'keycopy':
                    if key != reference:
                        which = 'key-depends-on-object-identity' if (identity_op or copies) else 'key-not-repeatable'
                        rec.fail(f"{fp}/{which}", f"history {history}: key of the copy at step {step} differs", reference, key)
                        break
                elif op == 'copy':
                    copies.append((ds.copy(), epoch))
                    identity_op = True
                elif op == 'deepcopy':
                    copies.append((ds.copy(deep=True), epoch))
                    identity_op = True
                elif op == 'hold':
                    name = geometry_names(ds)[0]
                    keep.append(list(ds[name].attrs.values()))
                    keep.append(list(ds[name].attrs.keys()))
                    identity_op = True
                elif op == 'assign':
                    ds['assigned'] = ds['botz'] + 1
                    identity_op = True     # xarray re-creates variable objects; content of the geometry is untouched
            ds.close()

        first = HISTORY_OPS[case['first']]
        for length in range(1, depth + 1):
            for rest in itertools.product(HISTORY_OPS, repeat=length - 1):
                history = (first,) + rest
                if 'key' not in history and 'keycopy' not in history:
                    continue
                rec.states += 1
                if any(op in history for op in ('copy', 'deepcopy', 'hold')):
                    rec.nontrivial(history)
                run(history)
    rec.outcome([spec['family'], regime, first])


def run_case(case):
    rec = Recorder()
    {'table': run_table, 'seeds': run_seeds, 'history': run_history}[case['part']](case, rec)
    return rec.result()


if __name__ == '__main__':
    env.import_emsarray()
    print(json.dumps({json.dumps(spec, sort_keys=True): key_table(spec) for spec in SPECS if not spec.get('big')}))
