"""C01 -- native and linear indexes form a bijection on every grid (row-major, no wrap/clamp)."""
from __future__ import annotations

import itertools

import numpy as np

from .. import builders, sequences
from ..runner import LibraryRaised, Recorder, lib

PROPERTY = 'C01'
TITLE = 'Native and linear indexes form a bijection on every grid'
RULE = (
    "One case per (convention family, grid shape / mesh, edge-dimension variant); inside a case every "
    "grid kind x every linear index in [-3, size+3) x every native index with each component in "
    "[-2, dim+2) x numpy/bool/float index types is executed.  Non-trivial: cases on non-square grids "
    "or conventions with several grid kinds (out-of-range probes are part of every case)."
    " Also: datasets that declare their dimensions in the opposite order to the convention's, conventions constructed by hand with explicit coordinate names, meshes whose edge dimension is named but carried by no variable, and index components given as numpy int8/uint8/int16/... on grids with more cells than those types can count."
    " Datasets also arrive with a history: warmed convention, copy, deep copy, pickle, netCDF round trip, fully chunked (dask), and hand-built conventions for coordinates autodetection would not pick (decoy pair), after warm / pickle. Also (operation sequences, mc/sequences.py): for 8 base datasets and every sequence `first [middle] query` over 36 operations (queries, in-place edits a user makes, transforms whose result is used next; quick length 2, thorough length 3, and for this property length 4 `first m1 m2 query` wherever m1 or m2 is an in-place edit) ending in one of this property's own queries, the answer on the one used object equals the answer on a never-used rebuild. Second phase: the first case of every distinct outcome and kind (thorough: every case, for expensive checks every kind) again with debug logging enabled, under numpy.errstate(all='ignore'), and in python -O child interpreters."
)
LEVEL_TEXT = ('every grid kind x every linear index with margin x every native index with margin, on every grid shape up to 6x6 (11x2) of every convention and every mesh of the library, compared with row-major arithmetic; out-of-range must raise')
LEVEL_NOTE = ('numpy, the builders in mc/builders.py; shapes above the bound are not explored')
ASSUMPTIONS = [
    "numpy integer arithmetic; the reference is pure-Python row-major arithmetic over the sizes the builder chose",
    "float/bool linear indexes: either a refusal or the exactly equal integer result is accepted",
]

LOW_MARGIN, HIGH_MARGIN = 3, 3


def bounds(tier):
    return {
        'shapes': 'each dimension in 1..3 plus 2x4, 4x2' if tier == 'quick' else 'each dimension in 1..6, plus 1x9, 9x1, 2x11, 11x2',
        'linear_margin': [LOW_MARGIN, HIGH_MARGIN], 'native_margin': 2,
        'meshes': 'M1 M4 M6 M7 (quick) / M1..M9 (thorough), with and without an edge dimension',
    }


def _cases_first_call(tier):
    if tier == 'quick':
        shapes = builders.shapes(3, 3) + [(2, 4), (4, 2)]
        meshes = ['M1', 'M4', 'M6', 'M7']
    else:
        shapes = builders.shapes(6, 6) + [(1, 9), (9, 1), (2, 11), (11, 2)]
        meshes = ['M1', 'M2', 'M3', 'M4', 'M5', 'M6', 'M7', 'M8', 'M9']
    out = []
    for (a, b) in shapes:
        if a != b:
            # the dataset declares its dimensions in the opposite order to the convention's
            out.append({'family': 'cf1d', 'ny': a, 'nx': b, 'bounds': 'var', 'declare_reversed': True})
            out.append({'family': 'cf2d', 'ny': a, 'nx': b, 'declare_reversed': True})
            out.append({'family': 'shoc_standard', 'nj': a, 'ni': b, 'declare_reversed': True})
        out.append({'family': 'cf1d', 'ny': a, 'nx': b, 'bounds': 'var'})
        out.append({'family': 'cf2d', 'ny': a, 'nx': b, 'geometry': 'skew'})
        out.append({'family': 'shoc_simple', 'ny': a, 'nx': b})
        out.append({'family': 'shoc_standard', 'nj': a, 'ni': b})
    for (a, b) in [(2, 3), (3, 1), (4, 2)] + ([] if tier == 'quick' else [(1, 4), (5, 3)]):
        # the convention constructed by hand with explicit coordinate names, then bound
        out.append({'family': 'cf1d', 'ny': a, 'nx': b, 'names': 'other', 'explicit_names': True})
        out.append({'family': 'cf2d', 'ny': a, 'nx': b, 'explicit_names': True})
        out.append({'family': 'shoc_standard', 'nj': a, 'ni': b, 'explicit_names': True})
    # grids with more cells than a narrow integer type can count (indexes given as numpy int8 / uint8 / int16)
    out.append({'family': 'cf1d', 'ny': 12, 'nx': 12, 'bounds': 'var', 'nt': 1, 'nk': 1, 'narrow': True})
    out.append({'family': 'shoc_standard', 'nj': 16, 'ni': 17, 'nt': 1, 'nk': 1, 'narrow': True})
    if tier == 'thorough':
        out.append({'family': 'cf2d', 'ny': 190, 'nx': 180, 'bounds': 'derived', 'nt': 1, 'nk': 1, 'narrow': True})
    for mesh in meshes:
        out.append({'family': 'ugrid', 'mesh': mesh})
        out.append({'family': 'ugrid', 'mesh': mesh, 'supplied': ['edge_node'], 'edge_dim': 'declared'})
        out.append({'family': 'ugrid', 'mesh': mesh, 'supplied': ['edge_node'], 'edge_dim': 'implied',
                    'start_index': 1})
        # the topology names an edge dimension that no variable carries (edges are only implied)
        out.append({'family': 'ugrid', 'mesh': mesh, 'supplied': ['face_edge'], 'edge_dim': 'declared'})
        out.append({'family': 'ugrid', 'mesh': mesh, 'edge_dim': 'declared'})
    out.extend(builders.history_specs(tier))
    return out


def row_major_unravel(n: int, shape: tuple) -> tuple:
    out = []
    for size in reversed(shape):
        n, r = divmod(n, size)
        out.append(r)
    return tuple(reversed(out))


def row_major_ravel(index: tuple, shape: tuple) -> int:
    n = 0
    for i, size in zip(index, shape):
        n = n * size + i
    return n


def same_index(a, b) -> bool:
    """Native indexes compare equal as tuples of plain values."""
    try:
        a, b = tuple(a), tuple(b)
    except TypeError:
        return False
    if len(a) != len(b):
        return False
    for x, y in zip(a, b):
        if isinstance(x, (bool, np.bool_)) or isinstance(y, (bool, np.bool_)):
            return False
        if x != y:
            return False
    return True


def narrow_probes(rec, fp, case, convention, truth, grid_size):
    """Index components given as the narrowest numpy integer types that hold them, on grids whose linear
    indexes do not fit those types."""
    for kind, info in truth.kinds.items():
        shape = tuple(info['shape'])
        size = int(np.prod(shape))
        kind_obj = builders.grid_kind_object(truth, kind)
        rec.check(grid_size.get(kind) == size, f"{fp}/{kind}/grid-size", "grid size", size, grid_size.get(kind))
        corners = [tuple(s - 1 for s in shape), tuple(s // 2 for s in shape), (shape[0] - 1, 0), (0, shape[1] - 1), (shape[0] - 1, 1)]
        for dtype in (np.int8, np.uint8, np.int16, np.uint16, np.int32, np.int64):
            if max(shape) - 1 > np.iinfo(dtype).max:
                continue
            for multi in corners:
                want = row_major_ravel(multi, shape)
                native = builders.native_index(truth, kind, multi)
                typed = tuple(dtype(v) if isinstance(v, int) and not isinstance(v, bool) else v for v in native)
                try:
                    got = lib(convention.ravel_index, typed)
                    rec.check(int(got) == want, f"{fp}/{kind}/narrow-integer-index", f"ravel_index({multi} as {dtype.__name__}) on shape {shape}", want, got)
                except LibraryRaised as err:
                    rec.check(False, f"{fp}/{kind}/narrow-integer-index", f"ravel_index({multi} as {dtype.__name__}) raised", want, str(err))
            n = size - 1
            if n <= np.iinfo(dtype).max:
                try:
                    got = lib(convention.wind_index, dtype(n), grid_kind=kind_obj)
                    want_native = builders.native_index(truth, kind, row_major_unravel(n, shape))
                    rec.check(same_index(got, want_native), f"{fp}/{kind}/narrow-integer-index", f"wind_index({dtype.__name__}({n}))", want_native, got)
                except LibraryRaised as err:
                    rec.check(False, f"{fp}/{kind}/narrow-integer-index", f"wind_index({dtype.__name__}({n})) raised", 'index', str(err))
    rec.outcome([truth.family, 'narrow'])
    return rec.result()


def _run_case_first_call(case):
    rec = Recorder()
    ds, truth = builders.build(case)
    convention = builders.get_convention(ds, truth, case)
    family = truth.family
    fp = f"C01/{family}"

    kinds = truth.kinds
    lib_kinds = {getattr(k, 'value', k) for k in convention.grid_kinds}
    rec.check(lib_kinds == set(kinds), f"{fp}/grid-kinds", "set of grid kinds", sorted(kinds), sorted(lib_kinds))
    if len(kinds) > 1:
        rec.nontrivial('multi-kind')

    grid_size = {getattr(k, 'value', k): v for k, v in convention.grid_size.items()}
    if case.get('narrow'):
        rec.nontrivial('narrow-integer-indexes')
        return narrow_probes(rec, fp, case, convention, truth, grid_size)
    for kind, info in kinds.items():
        shape = tuple(info['shape'])
        size = int(np.prod(shape))
        kind_obj = builders.grid_kind_object(truth, kind)
        if len(shape) == 2 and shape[0] != shape[1]:
            rec.nontrivial(('nonsquare', kind))
        rec.check(grid_size.get(kind) == size, f"{fp}/{kind}/grid-size", "grid size", size, grid_size.get(kind))

        seen = set()
        # every linear index, with a margin on both sides
        for n in range(-LOW_MARGIN, size + HIGH_MARGIN):
            inside = 0 <= n < size
            try:
                index = lib(convention.wind_index, n, grid_kind=kind_obj)
            except LibraryRaised as err:
                rec.check(not inside, f"{fp}/{kind}/wind-raised", f"wind_index({n}) raised {err}", 'a native index', str(err))
                continue
            if not inside:
                rec.check(False, f"{fp}/{kind}/wind-out-of-range-accepted",
                          f"wind_index({n}) on a grid of size {size} returned instead of raising", 'error', index)
                continue
            expected = builders.native_index(truth, kind, row_major_unravel(n, shape))
            ok = rec.check(same_index(index, expected), f"{fp}/{kind}/wind-not-row-major",
                           f"wind_index({n}) shape {shape}", expected, index)
            try:
                back = lib(convention.ravel_index, index)
                rec.check(type(back) is int and back == n, f"{fp}/{kind}/wind-ravel-roundtrip",
                          f"ravel_index(wind_index({n}))", n, back)
            except LibraryRaised as err:
                rec.check(False, f"{fp}/{kind}/ravel-raised", f"ravel_index({index}) raised", n, str(err))
            if ok:
                seen.add(tuple(index))
            if kind == truth.default_kind:
                try:
                    default = lib(convention.wind_index, n)
                    rec.check(same_index(default, expected), f"{fp}/default-kind",
                              f"wind_index({n}) without grid_kind", expected, default)
                except LibraryRaised as err:
                    rec.check(False, f"{fp}/default-kind", f"wind_index({n}) raised", expected, str(err))
        rec.check(len(seen) == size, f"{fp}/{kind}/distinct-locations",
                  "number of distinct native indexes", size, len(seen))

        # every native index with each component in [-2, dim + 2)
        for multi in itertools.product(*[range(-2, s + 2) for s in shape]):
            inside = all(0 <= v < s for v, s in zip(multi, shape))
            native = builders.native_index(truth, kind, multi)
            try:
                n = lib(convention.ravel_index, native)
            except LibraryRaised as err:
                rec.check(not inside, f"{fp}/{kind}/ravel-raised", f"ravel_index({native}) raised", 'a linear index', str(err))
                continue
            if not inside:
                rec.check(False, f"{fp}/{kind}/ravel-out-of-range-accepted",
                          f"ravel_index({native}) on shape {shape} returned instead of raising", 'error', n)
                continue
            expected_n = row_major_ravel(multi, shape)
            rec.check(n == expected_n, f"{fp}/{kind}/ravel-not-row-major", f"ravel_index({native})", expected_n, n)
            try:
                back = lib(convention.wind_index, n, grid_kind=kind_obj)
                rec.check(same_index(back, native), f"{fp}/{kind}/ravel-wind-roundtrip",
                          f"wind_index(ravel_index({native}))", native, back)
            except LibraryRaised as err:
                rec.check(False, f"{fp}/{kind}/wind-raised", f"wind_index({n}) raised", native, str(err))

        # other integer-like types
        if size > 0:
            n = size - 1
            expected = builders.native_index(truth, kind, row_major_unravel(n, shape))
            try:
                got = lib(convention.wind_index, np.int64(n), grid_kind=kind_obj)
                rec.check(same_index(got, expected), f"{fp}/{kind}/numpy-int", f"wind_index(numpy.int64({n}))", expected, got)
            except LibraryRaised as err:
                rec.check(False, f"{fp}/{kind}/numpy-int", "numpy integer refused", expected, str(err))
            for odd in (float(n), n + 0.5):
                try:
                    got = lib(convention.wind_index, odd, grid_kind=kind_obj)
                    rec.check(odd == n and same_index(got, expected), f"{fp}/{kind}/float-index",
                              f"wind_index({odd!r})", 'refusal or ' + repr(expected), got)
                except LibraryRaised:
                    rec.step()

    # a grid kind the dataset does not have is refused
    if family == 'ugrid' and 'edge' not in kinds:
        from emsarray.conventions.ugrid import UGridKind
        for label, call in (
            ('wind', lambda: convention.wind_index(0, grid_kind=UGridKind.edge)),
            ('ravel', lambda: convention.ravel_index((UGridKind.edge, 0))),
        ):
            try:
                got = lib(call)
                rec.check(False, f"{fp}/missing-kind-{label}", "edge index accepted on a mesh without an edge dimension", 'error', got)
            except LibraryRaised:
                rec.step()
        rec.nontrivial('missing-kind')

    rec.outcome([family, sorted((k, tuple(v['shape'])) for k, v in kinds.items())])
    return rec.result()


def cases(tier):
    # first calls on freshly built datasets, then operation sequences on one object (mc/sequences.py)
    return _cases_first_call(tier) + sequences.cases_for(PROPERTY, tier)


def run_case(case):
    if case.get('part') == 'sequence':
        rec = Recorder()
        sequences.run_case(PROPERTY, case, rec)
        return rec.result()
    return _run_case_first_call(case)
