"""C11 -- convention detection and binding are deterministic and stable."""
from __future__ import annotations

import collections
import itertools
import json
import os

import numpy as np
import xarray as xr

from .. import builders
from ..runner import LibraryRaised, Recorder, lib

PROPERTY = 'C11'
TITLE = 'Convention detection and binding are deterministic and stable'
RULE = (
    "Detection: one case per registration order of up to 3 extra conventions out of {matches-all HIGH, "
    "matches-all MEDIUM, matches-all LOW, matches-nothing, matches-all above HIGH, a built-in class registered by hand (UGrid, ShocSimple)} (260 orders, each executed in a forked child of a "
    "pristine parent so the global registry is never reset by hand) x every dataset of the list (one per "
    "convention plus near-misses with one distinguishing attribute or variable removed), each detected "
    "twice and through both get_dataset_convention and the accessor.  Binding: explicit-state search "
    "over histories of {access accessor, construct+bind detected class, construct+bind another class, "
    "copy, deep copy, detect} on up to 3 dataset objects: breadth-first with canonical-state "
    "de-duplication to depth 6 (quick) / 8 (thorough) (re-reached states must show identical observations), plus every history "
    "without de-duplication to depth 3 (quick) / 5 (thorough), each replayed from scratch on fresh "
    "objects and compared with the binding model at every step.  Non-trivial: detection cases with a tie "
    "decided by manual registration; histories containing both a copy and a bind."
    ' Also: the UGRID marker inside every usual spelling of a conventions list, detection repeated after every convention class was used by hand, and the same file path rewritten with other kinds of dataset and reopened ([a, b, a] for all pairs).'
    " Second phase: the first case of every distinct outcome and kind (thorough: every case, for expensive checks every kind) again with debug logging enabled, under numpy.errstate(all='ignore'), and in python -O child interpreters."
)
LEVEL_TEXT = ("all 260 registration orders x 24 datasets against a detection model written from the docstrings; all binding "
              "histories to depth 3/4 plus the reachable canonical state graph to depth 6 against a map model "
              "(object -> bound instance)")
LEVEL_NOTE = ("ties between two built-in conventions or two manually registered ones are not generated (the property does not "
              "order them); entry-point discovery itself is trusted")
ASSUMPTIONS = ["a forked child of a process that never registered anything has a pristine registry"]

EXTRAS = ('HIGH', 'MEDIUM', 'LOW', 'NOTHING', 'ABOVE', 'BUILTIN-UGrid', 'BUILTIN-ShocSimple')


def bounds(tier):
    return {'registration_orders': 260, 'history_depth_full': 3 if tier == 'quick' else 5, 'bfs_depth': 6 if tier == 'quick' else 8, 'objects': 3}


def environment_key(case, outcome):
    # second phase (other process environments): one registration order of each length and shape, every other part
    return (case['part'], len(case.get('order', [])), tuple(sorted(case.get('order', [])))[:2], case.get('first'))


ENVIRONMENTS_ON_REPRESENTATIVES_ONLY = True


def cases(tier):
    out = []
    for r in range(0, 4):
        for order in itertools.permutations(EXTRAS, r):
            out.append({'part': 'detect', 'order': list(order)})
    kinds = ['cf1d', 'cf2d', 'shoc_simple', 'shoc_standard', 'ugrid']
    for a in kinds:
        for b in kinds:
            if a != b:
                # the same path holds first one kind of dataset, then another, then the first again
                out.append({'part': 'files', 'order': [a, b, a]})
    depth = 3 if tier == 'quick' else 5
    out.append({'part': 'bind-bfs', 'depth': 6 if tier == 'quick' else 8})
    # full enumeration, split by first operation to spread over workers
    for first in range(len(enabled_ops(1, 1))):
        out.append({'part': 'bind-full', 'depth': depth, 'first': first})
    # longer histories on a single dataset object (no copies): what one object remembers about earlier attempts
    for first in range(len(enabled_ops(1, 1))):
        out.append({'part': 'bind-full', 'depth': 5 if tier == 'quick' else 6, 'first': first, 'max_objects': 1})
    return out


# ------------------------------------------------------------------------------------ detection

LAT_UNITS = {'degrees_north', 'degree_north', 'degree_N', 'degrees_N', 'degreeN', 'degreesN'}
LON_UNITS = {'degrees_east', 'degree_east', 'degree_E', 'degrees_E', 'degreeE', 'degreesE'}


def detection_datasets():
    out = {}
    for name, spec in (('cf1d', {'family': 'cf1d', 'ny': 2, 'nx': 3}),
                       ('cf2d', {'family': 'cf2d', 'ny': 2, 'nx': 2}),
                       ('shoc_simple', {'family': 'shoc_simple', 'ny': 2, 'nx': 2}),
                       ('shoc_standard', {'family': 'shoc_standard', 'nj': 2, 'ni': 2}),
                       ('ugrid', {'family': 'ugrid', 'mesh': 'M1'})):
        out[name] = builders.build(spec)[0]
    ugrid = out['ugrid']
    d = ugrid.copy()
    d.attrs['Conventions'] = 'CF-1.4'
    out['ugrid-without-marker'] = d
    d = ugrid.copy()
    d['Mesh2'] = d['Mesh2'].copy()
    d['Mesh2'].attrs = {**d['Mesh2'].attrs, 'topology_dimension': 1}
    out['ugrid-topology-dimension-1'] = d
    d = ugrid.copy()
    d['Mesh2'] = d['Mesh2'].copy()
    d['Mesh2'].attrs = {k: v for k, v in d['Mesh2'].attrs.items() if k != 'cf_role'}
    out['ugrid-without-mesh-variable'] = d
    # the UGRID marker inside a list of conventions, in the spellings CF allows (blank or comma separated) and others seen in files
    for k, text in enumerate(('CF-1.6, UGRID-1.0', 'CF-1.6,UGRID-1.0', 'CF-1.8 UGRID-1.0 Deltares-0.10', 'CF-1.6/UGRID-1.0',
                              'ACDD-1.3;UGRID-1.0', 'UGRID')):
        d = ugrid.copy()
        d.attrs['Conventions'] = text
        out[f'ugrid-conventions-list-{k}'] = d
    d = ugrid.copy()
    d.attrs['Conventions'] = 'ugrid-1.0'        # the marker is upper case
    out['ugrid-lowercase-marker'] = d
    out['ugrid-second-mesh'] = builders.build({'family': 'ugrid', 'mesh': 'M1', 'second_mesh': True})[0]
    out['ugrid-second-mesh-listed-first'] = builders.build({'family': 'ugrid', 'mesh': 'M1', 'second_mesh': 'first'})[0]
    # a mesh file that also carries what identifies a SHOC simple file: two built-in conventions match equally well
    d = ugrid.copy()
    d.attrs['ems_version'] = 'v1.2.3'
    d['on_j_i'] = xr.DataArray(np.zeros((2, 2)), dims=['j', 'i'])
    out['ugrid-with-shoc-simple-marks'] = d
    out['shoc-standard-missing-coordinate'] = out['shoc_standard'].drop_vars(['x_left'])
    d = out['shoc_simple'].copy()
    d.attrs = {k: v for k, v in d.attrs.items() if k != 'ems_version'}
    out['shoc-simple-without-ems-version'] = d
    d = out['cf1d'].copy()
    d['lat'] = d['lat'].copy()
    d['lat'].attrs = {k: v for k, v in d['lat'].attrs.items() if k != 'units'}
    out['cf1d-lat-without-units'] = d
    d = out['cf1d'].copy()
    d['lat'] = d['lat'].copy()
    d['lat'].attrs = {'long_name': 'nothing that identifies a latitude'}
    out['cf1d-lat-unidentifiable'] = d
    cf2d = out['cf2d']
    d = cf2d.drop_vars(['lon', 'lon_bnds']).assign({'lon': xr.DataArray(np.arange(2.0), dims=['x'], attrs=dict(cf2d['lon'].attrs))})
    out['cf2d-lon-one-dimensional'] = d
    out['empty'] = xr.Dataset()
    return out


def model_matches(ds) -> list[tuple[str, int]]:
    """Detection spec from the docstrings: (built-in convention name, specificity)."""
    matches = []

    def first(units, standard, axis):
        for name, var in ds.variables.items():
            if var.attrs.get('units') in units or var.attrs.get('standard_name') == standard or var.attrs.get('axis') == axis:
                return var
        return None
    lat, lon = first(LAT_UNITS, 'latitude', 'Y'), first(LON_UNITS, 'longitude', 'X')
    if lat is not None and lon is not None:
        if lat.ndim == 1 and lon.ndim == 1:
            matches.append(('CFGrid1D', 10))
        if lat.ndim == 2 and lon.ndim == 2:
            matches.append(('CFGrid2D', 10))
    if all(n in ds.variables for n in ('y_centre', 'x_centre', 'y_left', 'x_left', 'y_back', 'x_back', 'y_grid', 'x_grid')):
        matches.append(('ShocStandard', 30))
    if 'ems_version' in ds.attrs and {'j', 'i'} <= set(ds.dims):
        matches.append(('ShocSimple', 30))
    if 'UGRID' in str(ds.attrs.get('Conventions', '')):
        mesh = [v for v in ds.data_vars.values() if v.attrs.get('cf_role') == 'mesh_topology']
        if any(v.attrs.get('topology_dimension') == 2 for v in mesh):      # "a 2-D mesh variable", wherever it is listed
            matches.append(('UGrid', 30))
    return matches


def model_detect(ds, order) -> tuple[str | None, bool]:
    """(expected winner, decided by a manual/built-in tie?).  Raises if the spec leaves it open."""
    level = {'HIGH': 30, 'MEDIUM': 20, 'LOW': 10, 'ABOVE': 40}
    builtin = model_matches(ds)
    manual = []
    for name in order:
        if name in level:
            manual.append((f'Extra{name}', level[name]))
        elif name.startswith('BUILTIN-'):
            # a built-in class registered by hand: it matches what it matches, but now with manual priority
            manual += [(n, s) for n, s in builtin if n == name.split('-', 1)[1]]
    if not manual and not builtin:
        return None, False
    best = max(s for _, s in manual + builtin)
    manual_best = [n for n, s in manual if s == best]
    builtin_best = [n for n, s in builtin if s == best and n not in manual_best]
    if len(manual_best) == 1:
        return manual_best[0], bool(builtin_best)
    if len(manual_best) > 1 or len(builtin_best) > 1:
        return 'UNSPECIFIED', False       # a tie the property does not order
    return builtin_best[0], False


def make_extra(name):
    from emsarray.conventions import Specificity
    from emsarray.conventions.grid import CFGrid1D
    if name.startswith('BUILTIN-'):
        import emsarray.conventions.shoc
        import emsarray.conventions.ugrid
        return {'UGrid': emsarray.conventions.ugrid.UGrid, 'ShocSimple': emsarray.conventions.shoc.ShocSimple}[name.split('-', 1)[1]]
    level = {'HIGH': Specificity.HIGH, 'MEDIUM': Specificity.MEDIUM, 'LOW': Specificity.LOW, 'NOTHING': None,
             'ABOVE': Specificity.HIGH + 10}[name]

    class Extra(CFGrid1D):
        @classmethod
        def check_dataset(cls, dataset):
            return level
    Extra.__name__ = Extra.__qualname__ = f'Extra{name}'
    return Extra


def exercise_conventions(datasets) -> None:
    """Legitimate uses of the convention classes that must leave detection untouched."""
    from emsarray.conventions.arakawa_c import ArakawaC
    from emsarray.conventions.grid import CFGrid1D, CFGrid2D
    from emsarray.conventions.shoc import ShocSimple, ShocStandard
    from emsarray.conventions.ugrid import UGrid
    shoc_names = {'face': ('y_centre', 'x_centre'), 'left': ('y_left', 'x_left'),
                  'back': ('y_back', 'x_back'), 'node': ('y_grid', 'x_grid')}
    uses = [
        lambda: CFGrid1D(datasets['cf1d'].copy(), latitude='lat', longitude='lon').polygons,
        lambda: CFGrid2D(datasets['cf2d'].copy(), latitude='lat', longitude='lon').polygons,
        lambda: ShocSimple(datasets['shoc_simple'].copy()).polygons,
        lambda: ShocStandard(datasets['shoc_standard'].copy()).polygons,
        lambda: ArakawaC(datasets['shoc_standard'].copy(), coordinate_names=shoc_names).polygons,
        lambda: ArakawaC(datasets['shoc_standard'].copy(), coordinate_names={
            'face': ('y_centre', 'x_centre'), 'left': ('y_left', 'x_left'), 'back': ('y_back', 'x_back'),
            'node': ('y_grid', 'x_grid')}).grid_size,
        # the SHOC class itself given names for a file that calls its coordinates something else
        lambda: ShocStandard(datasets['shoc_standard'].copy().rename({'y_centre': 'lat_c', 'x_centre': 'lon_c'}),
                             coordinate_names={**shoc_names, 'face': ('lat_c', 'lon_c')}).polygons,
        lambda: ShocStandard(datasets['shoc_standard'].copy().rename({'y_centre': 'lat_c', 'x_centre': 'lon_c'}),
                             coordinate_names={'face': ('lat_c', 'lon_c')}).grid_size,
        lambda: UGrid(datasets['ugrid'].copy()).polygons,
        lambda: CFGrid1D(datasets['ugrid'].copy(), latitude='Mesh2_node_y', longitude='Mesh2_node_x').grid_size,
    ]
    for use in uses:
        try:
            use()
        except Exception:  # noqa: BLE001
            pass


def detect_in_child(order) -> dict:
    """Register the extras in this order in a forked child and report what is detected."""
    read_fd, write_fd = os.pipe()
    pid = os.fork()
    if pid == 0:
        status = 1
        try:
            os.close(read_fd)
            from emsarray.conventions import get_dataset_convention, register_convention
            for name in order:
                register_convention(make_extra(name))
            report = {}
            for key, ds in detection_datasets().items():
                entry = {}
                for attempt in ('first', 'second'):
                    try:
                        cls = get_dataset_convention(ds)
                        entry[attempt] = None if cls is None else cls.__name__
                    except Exception as err:  # noqa: BLE001
                        entry[attempt] = f'raised {type(err).__name__}: {err}'
                try:
                    convention = ds.ems
                    entry['accessor'] = type(convention).__name__
                    entry['accessor_stable'] = ds.ems is convention
                except RuntimeError as err:
                    entry['accessor'] = 'RuntimeError'
                except Exception as err:  # noqa: BLE001
                    entry['accessor'] = f'raised {type(err).__name__}: {err}'
                report[key] = entry
            # detection must not depend on what the process did before: use every convention class by
            # hand (the documented constructors with explicit coordinate names), then detect again
            exercise_conventions(detection_datasets())
            for key, ds in detection_datasets().items():
                try:
                    cls = get_dataset_convention(ds)
                    report[key]['after_use'] = None if cls is None else cls.__name__
                except Exception as err:  # noqa: BLE001
                    report[key]['after_use'] = f'raised {type(err).__name__}: {err}'
            with os.fdopen(write_fd, 'w') as f:
                json.dump(report, f)
            status = 0
        finally:
            os._exit(status)
    os.close(write_fd)
    with os.fdopen(read_fd) as f:
        data = f.read()
    _, status = os.waitpid(pid, 0)
    if status != 0 or not data:
        raise RuntimeError(f"detection child failed for order {order} (status {status})")
    return json.loads(data)


def run_detect(case, rec):
    order = case['order']
    fp = "C11/detect"
    report = detect_in_child(order)
    datasets = detection_datasets()
    for key, ds in datasets.items():
        want, tie = model_detect(ds, order)
        if want == 'UNSPECIFIED':
            rec.step()
            continue
        if tie:
            rec.nontrivial((key, tuple(order)))
        got = report[key]
        which = 'valid' if key.startswith('ugrid-conventions-list') or '-' not in key and key != 'empty' else 'near-miss'
        rec.check(got['first'] == want, f"{fp}/{which}-wrong-convention", f"{key} with extras registered {order}", want, got['first'])
        rec.check(got['second'] == got['first'], f"{fp}/unstable", f"{key}: second detection differs", got['first'], got['second'])
        rec.check(got.get('after_use') == want, f"{fp}/depends-on-process-history",
                  f"{key} with extras {order}: detection after the convention classes were used by hand", want, got.get('after_use'))
        if want is None:
            rec.check(got['accessor'] == 'RuntimeError', f"{fp}/unmatched-not-refused", f"{key}: accessor on a dataset nothing matches",
                      'RuntimeError', got['accessor'])
        else:
            # constructing the winner may legitimately fail for near-misses handled by a generic class;
            # what must hold is: if the accessor returns, it returns the detected class, twice the same object
            if not str(got['accessor']).startswith('raised'):
                rec.check(got['accessor'] == want and got.get('accessor_stable') is True, f"{fp}/accessor-differs",
                          f"{key}: accessor class / stability", want, [got['accessor'], got.get('accessor_stable')])
            else:
                rec.step()
    rec.outcome(['detect', order])


# -------------------------------------------------------------------------------------- binding


def enabled_ops(nobjects: int, max_objects: int = 3) -> list[tuple]:
    ops = []
    for k in range(nobjects):
        ops.append(('access', k))
        ops.append(('bind', k, 'detected'))
        ops.append(('bind', k, 'other'))
        ops.append(('detect', k))
        # the dataset edited in place: the attributes that make its latitude recognisable removed / put back
        ops.append(('break', k))
        ops.append(('repair', k))
        if nobjects < max_objects:
            ops.append(('copy', k))
            ops.append(('deepcopy', k))
    return ops


class World:
    """Real objects, rebuilt by replaying a history on fresh datasets."""

    def __init__(self):
        from emsarray.conventions.grid import CFGrid1D
        self.detected = CFGrid1D

        class Other(CFGrid1D):
            pass
        self.other = Other
        ds, truth = builders.build({'family': 'cf1d', 'ny': 2, 'nx': 2, 'nt': 1, 'nk': 1})
        self.lat_name = truth.lat_name
        self.lat_attrs = dict(ds[truth.lat_name].attrs)
        self.objects = [ds]
        self.instances: list = []          # every convention instance ever seen, in order of appearance

    def rank(self, instance) -> int:
        for i, known in enumerate(self.instances):
            if known is instance:
                return i
        self.instances.append(instance)
        return len(self.instances) - 1

    def apply(self, op):
        """Returns an observation tuple."""
        from emsarray.conventions import get_dataset_convention
        kind, k = op[0], op[1]
        ds = self.objects[k]
        if kind == 'access':
            try:
                convention = ds.ems
            except RuntimeError:
                return ('access-refused',)
            return ('access', type(convention).__name__, self.rank(convention), convention.dataset is ds)
        if kind == 'break':
            for key in ('units', 'standard_name', 'axis', 'coordinate_type'):
                ds[self.lat_name].attrs.pop(key, None)
            return ('edited',)
        if kind == 'repair':
            ds[self.lat_name].attrs.update(self.lat_attrs)
            return ('edited',)
        if kind == 'bind':
            cls = self.detected if op[2] == 'detected' else self.other
            instance = cls(ds)
            try:
                instance.bind()
            except ValueError:
                return ('bind-refused',)
            return ('bound', cls.__name__, self.rank(instance))
        if kind == 'detect':
            cls = get_dataset_convention(ds)
            return ('detect', None if cls is None else cls.__name__)
        if kind in ('copy', 'deepcopy'):
            self.objects.append(ds.copy(deep=(kind == 'deepcopy')))
            return ('copied', len(self.objects) - 1)
        raise ValueError(op)

    def observe(self) -> tuple:
        from emsarray.state import State
        out = []
        for ds in self.objects:
            state = State.get(ds)
            if state.is_bound():
                out.append((type(state.convention).__name__, self.rank(state.convention), state.convention.dataset is ds))
            else:
                out.append(None)
        return tuple(out)


class Model:
    """object -> bound (class name, instance rank) or None."""

    def __init__(self):
        self.bound: list = [None]
        self.recognisable: list = [True]      # a function of the dataset's content alone
        self.instances = 0

    def fresh(self) -> int:
        self.instances += 1
        return self.instances - 1

    def apply(self, op):
        kind, k = op[0], op[1]
        if kind == 'access':
            if self.bound[k] is None:
                if not self.recognisable[k]:
                    return ('access-refused',)
                self.bound[k] = ('CFGrid1D', self.fresh())
            return ('access', self.bound[k][0], self.bound[k][1], True)
        if kind in ('break', 'repair'):
            self.recognisable[k] = kind == 'repair'
            return ('edited',)
        if kind == 'bind':
            name = 'CFGrid1D' if op[2] == 'detected' else 'Other'
            rank = self.fresh()        # constructing an instance is visible even when binding is refused
            if self.bound[k] is not None:
                return ('bind-refused',)
            self.bound[k] = (name, rank)
            return ('bound', name, rank)
        if kind == 'detect':
            return ('detect', 'CFGrid1D' if self.recognisable[k] else None)
        self.bound.append(None)
        self.recognisable.append(self.recognisable[k])
        return ('copied', len(self.bound) - 1)

    def observe(self):
        return tuple(None if b is None else (b[0], b[1], True) for b in self.bound)


def replay(history):
    """Replay on fresh real objects and on the model; returns (world, mismatches)."""
    world, model = World(), Model()
    problems = []
    for step, op in enumerate(history):
        got = world.apply(op)
        if got and got[0] == 'bind-refused':
            # the refused instance was constructed but never ranked in the world; keep ranks aligned
            world.instances.append(object())
        want = model.apply(op)
        if got != want:
            problems.append((step, op, want, got))
        if world.observe() != model.observe():
            problems.append((step, op, model.observe(), world.observe()))
    return world, model, problems


def canon(world) -> tuple:
    """Canonical state: per object the bound class (instance identity reduced to 'which objects share
    an instance', which must be none)."""
    obs = world.observe()
    ranks = [o[1] for o in obs if o is not None]
    recognisable = tuple(all(key in ds[world.lat_name].attrs for key in world.lat_attrs) for ds in world.objects)
    return tuple(None if o is None else o[0] for o in obs) + (len(set(ranks)) == len(ranks),) + recognisable


def classify(problem) -> str:
    step, op, want, got = problem
    if op[0] == 'bind':
        return 'second-bind-not-refused' if want == ('bind-refused',) else 'bind'
    if op[0] == 'access':
        return 'accessor-not-stable' if want != ('access-refused',) and got != ('access-refused',) else 'detection-not-a-function-of-content'
    if op[0] == 'detect':
        return 'detection-not-a-function-of-content'
    if op[0] in ('copy', 'deepcopy'):
        return 'copy-not-independent'
    return op[0]


def run_bind_full(case, rec):
    fp = "C11/bind"
    depth = case['depth']
    max_objects = case.get('max_objects', 3)
    first_ops = enabled_ops(1, max_objects)
    start = [first_ops[case['first']]]

    def extend(history, nobjects):
        rec.states += 1
        world, model, problems = replay(history)
        rec.step(len(history))
        kinds = {op[0] for op in history}
        if 'bind' in kinds and ({'copy', 'deepcopy'} & kinds):
            rec.nontrivial(tuple(history))
        for problem in problems[:1]:
            rec.fail(f"{fp}/{classify(problem)}", f"history {history}: step {problem[0]} {problem[1]}", problem[2], problem[3])
        if len(history) >= depth:
            return
        n = len(world.objects)
        for op in enabled_ops(n, max_objects):
            extend(history + [op], n)
    extend(start, 1)
    rec.outcome(['bind-full', case['first'], depth, max_objects])


def run_bind_bfs(case, rec):
    fp = "C11/bind"
    seen: dict = {}
    frontier = collections.deque([[]])
    world, _, _ = replay([])
    seen[canon(world)] = world.observe()
    max_depth = 0
    while frontier:
        history = frontier.popleft()
        if len(history) >= case['depth']:
            continue
        world, _, _ = replay(history)
        for op in enabled_ops(len(world.objects)):
            nxt = history + [op]
            w, m, problems = replay(nxt)
            rec.step()
            for problem in problems[:1]:
                rec.fail(f"{fp}/{classify(problem)}", f"history {nxt}: step {problem[0]} {problem[1]}", problem[2], problem[3])
            key = canon(w)
            shape = tuple(None if o is None else (o[0], o[2]) for o in w.observe())
            if key in seen:
                rec.check(seen[key] == shape, f"{fp}/canonical-form-too-coarse", f"state {key} re-reached via {nxt} with different observations",
                          seen[key], shape)
            else:
                seen[key] = shape
                frontier.append(nxt)
                max_depth = max(max_depth, len(nxt))
                rec.nontrivial(key)
    rec.states = len(seen)
    rec.outcome(['bind-bfs', len(seen), max_depth])


def run_files(case, rec):
    """Detection of file-backed datasets must depend on what the file holds now, not on what was seen at that
    path (or derived from it) earlier in the process."""
    import emsarray
    from .. import env
    from emsarray.conventions import get_dataset_convention
    fp = "C11/files"
    datasets = detection_datasets()
    order = case['order']
    with env.scratch_dir() as tmp:
        path = os.path.join(tmp, 'model.nc')
        seen = []
        for key in order:
            if os.path.exists(path):
                os.remove(path)
            datasets[key].to_netcdf(path)
            want, _ = model_detect(datasets[key], [])
            if want == 'UNSPECIFIED':
                continue
            opened = xr.open_dataset(path)
            try:
                got = type(opened.ems).__name__
            except RuntimeError:
                got = None
            rec.check(got == want, f"{fp}/stale-class-for-path", f"file rewritten with {key} after {seen}: convention of the reopened file", want, got)
            # a dataset derived from the opened one, with what identified it removed, is a near-miss again
            stripped = opened.copy()
            for name in list(stripped.variables):
                stripped[name].attrs = {}
            stripped.attrs = {}
            want_stripped, _ = model_detect(stripped, [])
            try:
                got_stripped = type(stripped.ems).__name__
            except RuntimeError:
                got_stripped = None
            cls = get_dataset_convention(stripped)
            rec.check(got_stripped == want_stripped and (cls.__name__ if cls else None) == want_stripped, f"{fp}/derived-dataset-keeps-class",
                      f"{key}: a copy with all attributes removed", want_stripped, got_stripped)
            opened.close()
            seen.append(key)
            rec.nontrivial(tuple(seen))
    rec.outcome(['files', order])


def run_case(case):
    rec = Recorder()
    {'detect': run_detect, 'bind-full': run_bind_full, 'bind-bfs': run_bind_bfs, 'files': run_files}[case['part']](case, rec)
    return rec.result()
