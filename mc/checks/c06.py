"""C06 -- cell polygons and dataset extent are faithful to the dataset's coordinates."""
from __future__ import annotations

import itertools
import warnings

import numpy as np
import shapely
from shapely.geometry import Polygon

from .. import builders, env, ref, sequences
from ..runner import LibraryRaised, Recorder, lib

PROPERTY = 'C06'
TITLE = "Cell polygons and dataset extent are faithful to the dataset's coordinates"
RULE = (
    "One case per coordinate-array configuration: CF1D shapes x {ascending, non-uniform, descending, "
    "descending non-uniform} per axis x bounds {derived, stored contiguous, stored as coordinate, stored "
    "with gaps} x coordinate naming {lat(lat), latitude(y) coordinate, latitude(y) plain variable}; "
    "CF2D / SHOC simple shapes x {rectangular, skewed, north-to-south} x {stored, derived} bounds x hole "
    "patterns x {coordinate, plain variable}, plus a self-intersecting interior cell; SHOC standard "
    "shapes x geometry x dry patterns x {coordinate, plain}; UGRID meshes x {0,1}-based x {NaN, "
    "_FillValue attribute} x {normal, transposed} x {plain, coordinate} x stored face centres, in memory "
    "and written to netCDF and reopened (decoded and raw), plus a self-intersecting face.  Oracle: "
    "polygon of each cell from that cell's own coordinates, validity mask, warning, bounding box, union.  "
    "Non-trivial: descending / non-uniform axes, stored bounds, holes, mixed face sizes, bow-ties."
    ' Also: integer and float32 coordinate axes, overlapping stored bounds, one-based tables whose missing marker is 0, a mesh with unused nodes, one grid per family above 2^16 cells (thorough: above 2^18), input purity and a second look through a copy.'
    " Datasets also arrive with a history: warmed convention, copy, deep copy, pickle, netCDF round trip, fully chunked (dask), and hand-built conventions for coordinates autodetection would not pick (decoy pair), after warm / pickle. Also (operation sequences, mc/sequences.py): for 8 base datasets and every sequence `first [middle] query` over 36 operations (queries, in-place edits a user makes, transforms whose result is used next; quick length 2, thorough length 3) ending in one of this property's own queries, the answer on the one used object equals the answer on a never-used rebuild. Second phase: the first case of every distinct outcome and kind (thorough: every case, for expensive checks every kind) again with debug logging enabled, under numpy.errstate(all='ignore'), and in python -O child interpreters."
)
LEVEL_TEXT = ('every coordinate-array configuration of the stated space (axis orientations, bounds variants, naming, holes, dry regions, mesh encodings, in memory and reopened from netCDF, bow-tie cells): polygon of each cell from its own coordinates, mask, warning, bounding box, union')
LEVEL_NOTE = ('GEOS validity/union; CF2D derived polygons judged only where unambiguous; size-1 axes without bounds may be refused')
ASSUMPTIONS = [
    "CF2D derived polygons are judged only where the definition is unambiguous (DESIGN 3/C06 limits)",
    "size-1 axes without stored bounds have no defined midpoints; a refusal is accepted",
    "the self-intersecting cell is kept off the hull because the fast-path bounds read raw coordinates",
]


def bounds(tier):
    return {'shapes': 'each dimension 1..3 plus 3x4' if tier == 'quick' else 'each dimension 1..4 plus 2x5, 5x2',
            'meshes': 'M1 M4 M5 M7 M8' if tier == 'quick' else 'M1..M9'}


def _cases_first_call(tier):
    quick = tier == 'quick'
    shapes = builders.shapes(3, 3) + [(3, 4)] if quick else builders.shapes(4, 4) + [(2, 5), (5, 2)]
    out = []
    axis_kinds = ['asc', 'nonuni', 'desc', 'descnonuni']
    for (a, b) in shapes:
        for lat_kind, lon_kind in itertools.product(axis_kinds, axis_kinds):
            for bnds in ('none', 'var', 'coord', 'gapped', 'overlap'):
                for names, coords_as in (('dim', 'coord'), ('other', 'coord'), ('other', 'var')):
                    if quick and (lat_kind, lon_kind) not in (('asc', 'asc'), ('desc', 'nonuni'), ('nonuni', 'descnonuni'), ('descnonuni', 'desc')):
                        continue
                    out.append({'family': 'cf1d', 'ny': a, 'nx': b, 'lat_kind': lat_kind, 'lon_kind': lon_kind,
                                'bounds': bnds, 'names': names, 'coords_as': coords_as})
        # bounds stored for one coordinate only (every mode against every other), nearly uniform axes, signed zeros
        for lat_mode, lon_mode in itertools.product(('none', 'var', 'coord', 'gapped'), repeat=2):
            if lat_mode != lon_mode:
                out.append({'family': 'cf1d', 'ny': a, 'nx': b, 'lat_kind': 'nonuni', 'lon_kind': 'desc', 'bounds_lat': lat_mode,
                            'bounds_lon': lon_mode, 'bounds': 'mixed', 'names': 'dim', 'coords_as': 'coord'})
        for bnds in ('none', 'var'):
            out.append({'family': 'cf1d', 'ny': a, 'nx': b, 'lat_kind': 'nearuni', 'lon_kind': 'nearuni', 'bounds': bnds,
                        'names': 'other', 'coords_as': 'coord'})
            out.append({'family': 'cf1d', 'ny': a, 'nx': b, 'lat_kind': 'nearuni-tiny', 'lon_kind': 'nearuni', 'bounds': bnds,
                        'names': 'dim', 'coords_as': 'coord'})
        out.append({'family': 'cf1d', 'ny': a, 'nx': b, 'lat_kind': 'asc', 'lon_kind': 'asc', 'lat0': -0.125, 'lon0': -0.125, 'bounds': 'var',
                    'signed_zero': True, 'names': 'dim', 'coords_as': 'coord'})
        for bnds in ('none', 'var'):
            out.append({'family': 'cf1d', 'ny': a, 'nx': b, 'lat_kind': 'asc', 'lon_kind': 'desc', 'bounds': bnds, 'valid_range': True,
                        'names': 'dim', 'coords_as': 'coord'})
        for lat_kind, lon_kind in (('desc', 'asc'), ('descnonuni', 'desc')):
            out.append({'family': 'cf1d', 'ny': a, 'nx': b, 'lat_kind': lat_kind, 'lon_kind': lon_kind, 'bounds': 'var', 'bounds_rows': 'sorted',
                        'names': 'dim', 'coords_as': 'coord'})
        # hairline gaps between stored cells, at coordinates of large magnitude
        out.append({'family': 'cf1d', 'ny': a, 'nx': b, 'lat_kind': 'asc', 'lon_kind': 'asc', 'lat0': -30.0, 'lon0': 150.0, 'bounds': 'hairline',
                    'names': 'dim', 'coords_as': 'coord'})
        # decimal fractions on an axis that crosses zero off-centre
        for bnds in ('none', 'var'):
            out.append({'family': 'cf1d', 'ny': a, 'nx': b, 'lat_kind': 'tenths', 'lon_kind': 'tenths', 'lat0': 0.0, 'lon0': 0.0, 'bounds': bnds,
                        'names': 'dim', 'coords_as': 'coord'})
        # coordinates stored as integers or float32 (derived bounds must not inherit the storage type)
        for lat_kind, lon_kind in (('int', 'intdesc'), ('intdesc', 'int'), ('float32', 'int'), ('int', 'float32'), ('int8', 'int'), ('int', 'int8')):
            for bnds in ('none', 'var'):
                out.append({'family': 'cf1d', 'ny': a, 'nx': b, 'lat_kind': lat_kind, 'lon_kind': lon_kind,
                            'bounds': bnds, 'names': 'dim', 'coords_as': 'coord'})
        for family in ('cf2d', 'shoc_simple'):
            for geometry in ('rect', 'skew', 'rot'):
                for bnds in ('stored', 'derived'):
                    for holes in builders.HOLE_SETS:
                        for coords_as in ('coord', 'var'):
                            if quick and family == 'shoc_simple' and (geometry != 'skew' or coords_as == 'var'):
                                continue
                            out.append({'family': family, 'ny': a, 'nx': b, 'geometry': geometry, 'bounds': bnds,
                                        'holes': holes, 'coords_as': coords_as})
            if a >= 3 and b >= 3:
                out.append({'family': family, 'ny': a, 'nx': b, 'geometry': 'skew', 'bounds': 'stored', 'bowtie': [1, 1]})
                out.append({'family': family, 'ny': a, 'nx': b, 'geometry': 'rect', 'bounds': 'stored',
                            'holes': 'corner', 'bowtie': [1, 1]})
        for geometry in ('rect', 'skew', 'rot'):
            for dry in builders.DRY_SETS:
                for coords_as in ('coord', 'var'):
                    out.append({'family': 'shoc_standard', 'nj': a, 'ni': b, 'geometry': geometry, 'dry': dry,
                                'coords_as': coords_as})
            # a finite node that belongs to no cell, longitude with its dimensions the other way round, column-major arrays
            out.append({'family': 'shoc_standard', 'nj': a, 'ni': b, 'geometry': geometry, 'dry': 'corner', 'ragged': True, 'coords_as': 'coord'})
            out.append({'family': 'shoc_standard', 'nj': a, 'ni': b, 'geometry': geometry, 'dry': 'none', 'transposed_lon': True, 'coords_as': 'coord'})
            out.append({'family': 'shoc_standard', 'nj': a, 'ni': b, 'geometry': geometry, 'dry': 'farcorner', 'fortran': True, 'coords_as': 'var'})
            out.append({'family': 'cf2d', 'ny': a, 'nx': b, 'geometry': geometry, 'bounds': 'stored', 'holes': 'first', 'fortran': True, 'coords_as': 'coord'})
    # one grid per family above 2^16 cells (thorough: above 2^18): batch / offset arithmetic in bulk construction
    out.append({'family': 'cf1d', 'ny': 260, 'nx': 255, 'bounds': 'var', 'lat_kind': 'asc', 'lon_kind': 'asc', 'names': 'dim',
                'coords_as': 'coord', 'nt': 1, 'nk': 1})
    out.append({'family': 'cf2d', 'ny': 258, 'nx': 256, 'geometry': 'skew', 'bounds': 'stored', 'holes': 'first', 'coords_as': 'coord',
                'nt': 1, 'nk': 1})
    out.append({'family': 'shoc_standard', 'nj': 257, 'ni': 256, 'geometry': 'rect', 'dry': 'corner', 'coords_as': 'coord', 'nt': 1, 'nk': 1})
    if not quick:
        out.append({'family': 'cf1d', 'ny': 540, 'nx': 500, 'bounds': 'none', 'lat_kind': 'desc', 'lon_kind': 'asc', 'names': 'other',
                    'coords_as': 'coord', 'nt': 1, 'nk': 1})
        out.append({'family': 'cf2d', 'ny': 520, 'nx': 510, 'geometry': 'rect', 'bounds': 'stored', 'holes': 'corner', 'coords_as': 'coord',
                    'nt': 1, 'nk': 1})
    meshes = ['M1', 'M3', 'M4', 'M5', 'M6', 'M7', 'M8', 'M10', 'M11', 'M12'] if quick else ['M1', 'M2', 'M3', 'M4', 'M5', 'M6', 'M7', 'M8', 'M9', 'M10', 'M11', 'M12']
    for mesh in meshes:
        for start_index, fill, transposed, coords_as, face_coords in itertools.product(
                (0, 1), ('nan', 'fillattr'), (False, True), ('var', 'coord'), (False, True)):
            spec = {'family': 'ugrid', 'mesh': mesh, 'start_index': start_index, 'fill': fill,
                    'transposed': transposed, 'coords_as': coords_as, 'face_coords': face_coords}
            out.append(spec)
            if not transposed and not face_coords:
                out.append({**spec, 'io': 'reopen'})
                if fill == 'fillattr':
                    out.append({**spec, 'io': 'raw'})
        # tables wider than the largest face; another unrelated topology variable in the file
        for fill in ('nan', 'fillattr'):
            out.append({'family': 'ugrid', 'mesh': mesh, 'extra_width': 1, 'fill': fill, 'start_index': 1})
            out.append({'family': 'ugrid', 'mesh': mesh, 'extra_width': 2, 'fill': fill, 'transposed': True})
        out.append({'family': 'ugrid', 'mesh': mesh, 'second_mesh': True})
        out.append({'family': 'ugrid', 'mesh': mesh, 'start_index': 1, 'fill': 'fillattr', 'start_index_as': 'float', 'supplied': ['face_face']})
        out.append({'family': 'ugrid', 'mesh': mesh, 'start_index': 0, 'fill': 'nan', 'start_index_as': 'float'})
        out.append({'family': 'ugrid', 'mesh': mesh, 'second_mesh': 'first', 'start_index': 1})
        # MPAS style: one-based indexes, 0 marks "no node"
        out.append({'family': 'ugrid', 'mesh': mesh, 'start_index': 1, 'fill': 'fillattr', 'fill_value': 0})
        out.append({'family': 'ugrid', 'mesh': mesh, 'start_index': 1, 'fill': 'fillattr', 'fill_value': 0, 'transposed': True, 'io': 'raw'})
        bow = {'M4': 0, 'M7': 5, 'M5': 0, 'M8': 1}.get(mesh)
        if bow is not None:
            out.append({'family': 'ugrid', 'mesh': mesh, 'bowtie': bow, 'start_index': 1, 'fill': 'fillattr'})
            out.append({'family': 'ugrid', 'mesh': mesh, 'bowtie': bow})
    # datasets and conventions that have been used, copied, pickled, saved or chunked before
    for spec in builders.history_specs(tier):
        if spec['family'] == 'cf1d':
            spec = {'lat_kind': 'asc', 'lon_kind': 'asc', 'names': 'dim', 'coords_as': 'coord', **spec}
        out.append(spec)
    return out


def nontrivial_tags(case):
    tags = []
    if case.get('history'):
        tags.append('history')
    if case['family'] == 'cf1d':
        if case['lat_kind'] != 'asc' or case['lon_kind'] != 'asc':
            tags.append('axis')
        if case['bounds'] != 'none':
            tags.append('stored-bounds')
    else:
        if case.get('holes', 'none') != 'none' or case.get('dry', 'none') != 'none':
            tags.append('holes')
        if case.get('bowtie') is not None:
            tags.append('bowtie')
        if case['family'] == 'ugrid' and case['mesh'] in ('M4', 'M5', 'M8'):
            tags.append('mixed-faces')
        if case.get('geometry') in ('skew', 'rot'):
            tags.append('geometry')
    return tags


def _run_case_first_call(case):
    rec = Recorder()
    ds, truth = builders.build({k: v for k, v in case.items() if k != 'io'})
    fp = f"C06/{truth.family}"
    if nontrivial_tags(case):
        rec.nontrivial(True)

    with env.scratch_dir() as tmp:
        if case.get('io') == 'reopen':
            ds = builders.reopen(ds, tmp)
        elif case.get('io') == 'raw':
            ds = builders.reopen(ds, tmp, mask_and_scale=False)
        result = check_dataset(rec, fp, case, ds, truth)
        ds.close()
    return result


def check_dataset(rec, fp, case, ds, truth):
    snapshot = ds.copy(deep=True)
    check_dataset_once(rec, fp, case, ds, truth)
    rec.check(ds.identical(snapshot), f"{fp}/dataset-modified", "building the geometry modified the dataset", 'unchanged', 'changed')
    if truth.defined:
        try:
            if case.get('explicit_names'):
                # a convention bound by hand stays with its dataset object, but travels in its pickle
                import pickle
                again = lib(lambda: list(pickle.loads(pickle.dumps(ds)).ems.polygons))
            else:
                again = lib(lambda: list(ds.copy().ems.polygons))
            first = list(ds.ems.polygons)
            same = len(again) == len(first) and all((a is None and b is None) or (a is not None and b is not None and a.equals(b))
                                                    for a, b in zip(again, first))
            rec.check(same, f"{fp}/second-look-differs", "polygons of a copy of the dataset differ from the first look", 'same', 'different')
        except LibraryRaised:
            rec.step()
    return rec.result()


def check_dataset_once(rec, fp, case, ds, truth):
    try:
        convention = lib(lambda: ds.ems)
    except LibraryRaised as err:
        rec.check(False, f"{fp}/accessor-raised", "dataset.ems raised", truth.convention, str(err))
        return rec.result()
    rec.check(type(convention).__name__ == truth.convention, f"{fp}/convention", "convention class",
              truth.convention, type(convention).__name__)

    with warnings.catch_warnings(record=True) as caught:
        warnings.simplefilter('always')
        try:
            polygons = lib(lambda: convention.polygons)
        except LibraryRaised as err:
            if not truth.defined:
                rec.step()  # refusal accepted: no defined midpoints for a size-1 axis
                rec.outcome('refused-undefined')
                return rec.result()
            which = 'coordinates-not-data-vars' if isinstance(err.exc, KeyError) else 'polygons-raised'
            rec.check(False, f"{fp}/{which}", "convention.polygons raised", 'polygons', str(err))
            return rec.result()
    from emsarray.exceptions import InvalidPolygonWarning
    invalid_warned = any(issubclass(w.category, InvalidPolygonWarning) for w in caught)
    if not truth.defined:
        rec.outcome('undefined-accepted')
        return rec.result()

    nface = len(truth.polygons)
    if not rec.check(len(polygons) == nface, f"{fp}/count", "number of polygons", nface, len(polygons)):
        return rec.result()
    mask = convention.mask
    judged = truth.get('judged', [True] * nface)
    stored_mode = f"{case.get('bounds', '')}"
    tag = stored_mode if truth.family == 'cf1d' else ''
    for n in range(nface):
        if not judged[n]:
            continue
        coords = truth.polygons[n]
        if coords is None:
            rec.check(polygons[n] is None, f"{fp}/polygon-for-missing-cell", f"cell {n} has missing coordinates or is self-intersecting",
                      None, None if polygons[n] is None else ref.ring_of(polygons[n]))
        else:
            which = f"{fp}/polygon-wrong" + (f"-{tag}" if tag else '')
            rec.check(ref.polygon_matches(polygons[n], coords, truth.polygon_compare), which,
                      f"polygon of cell {n}", coords, None if polygons[n] is None else ref.ring_of(polygons[n]))
        rec.check(bool(mask[n]) == (polygons[n] is not None), f"{fp}/mask", f"mask[{n}] vs polygons[{n}]",
                  polygons[n] is not None, bool(mask[n]))
    if 'pickle' not in (case.get('history') or []):
        # (a cached array that has been through pickle comes back writeable; that is numpy's doing and harms nothing)
        rec.check(polygons.flags.writeable is False, f"{fp}/writeable", "polygons array is writeable", False, True)
    else:
        rec.step()
    if truth.family == 'cf1d' and case.get('bounds', 'none') in ('none', 'var', 'coord') and 'bounds_lat' not in case:
        # cells of a CF 1-D grid whose bounds are generated, or stored contiguous, tile the plane: neighbours share their
        # edge exactly (no sliver between them, no overlap), whatever arithmetic produced it
        ny, nx = case['ny'], case['nx']
        for j in range(ny if ny * nx <= 400 else 0):
            for i in range(nx):
                here = polygons[j * nx + i]
                if here is None:
                    continue
                if i + 1 < nx and polygons[j * nx + i + 1] is not None:
                    a, b = here.bounds, polygons[j * nx + i + 1].bounds
                    rec.check(a[2] == b[0] or a[0] == b[2], f"{fp}/neighbours-do-not-share-an-edge",
                              f"cells ({j},{i}) and ({j},{i + 1})", [a[0], a[2]], [b[0], b[2]])
                if j + 1 < ny and polygons[(j + 1) * nx + i] is not None:
                    a, b = here.bounds, polygons[(j + 1) * nx + i].bounds
                    rec.check(a[3] == b[1] or a[1] == b[3], f"{fp}/neighbours-do-not-share-an-edge",
                              f"cells ({j},{i}) and ({j + 1},{i})", [a[1], a[3]], [b[1], b[3]])
    if truth.get('bowtie') is not None:
        rec.check(invalid_warned, f"{fp}/no-invalid-warning", "self-intersecting cell dropped without InvalidPolygonWarning", 'warning', 'none')

    # extent
    if all(judged):
        valid = [Polygon(c) for c in truth.polygons if c is not None]
        if valid:
            union = shapely.unary_union(valid)
            try:
                got = tuple(float(v) for v in lib(lambda: convention.bounds))
                close = truth.polygon_compare == 'close'
                rec.check(got == tuple(union.bounds) or (close and np.allclose(got, union.bounds, rtol=0, atol=1e-12)),
                          f"{fp}/bounds", "dataset bounds", union.bounds, got)
            except LibraryRaised as err:
                rec.check(False, f"{fp}/bounds-raised", "convention.bounds raised", union.bounds, str(err))
            try:
                geometry = lib(lambda: convention.geometry)
                area = geometry.symmetric_difference(union).area
                which = f"{fp}/geometry-not-union" + (f"-{tag}" if tag else '')
                rec.check(area == 0 or (truth.polygon_compare == 'close' and area < 1e-9), which, "dataset geometry vs union of the cell polygons",
                          union.wkt[:200], geometry.wkt[:200])
            except LibraryRaised as err:
                rec.check(False, f"{fp}/geometry-raised", "convention.geometry raised", 'geometry', str(err))
    rec.outcome([truth.family, sum(1 for c in truth.polygons if c is None), invalid_warned])
    return rec.result()


def environment_skip(case):
    return case.get('ny', case.get('nj', 0)) * case.get('nx', case.get('ni', 0)) > 2000


def cases(tier):
    # first calls on freshly built datasets, then operation sequences on one object (mc/sequences.py)
    return _cases_first_call(tier) + sequences.cases_for(PROPERTY, tier)


def run_case(case):
    if case.get('part') == 'sequence':
        rec = Recorder()
        sequences.run_case(PROPERTY, case, rec)
        return rec.result()
    return _run_case_first_call(case)
