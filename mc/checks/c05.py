"""C05 -- index and point selection return the stored values, complete and in order."""
from __future__ import annotations

import itertools

import numpy as np
import shapely
import pandas
import xarray as xr
from shapely.geometry import Point

from .. import builders, ref, sequences
from ..runner import LibraryRaised, Recorder, lib

PROPERTY = 'C05'
TITLE = 'Index and point selection return the stored values, complete and in order'
RULE = (
    "Index part: one case per (dataset, grid kind, list length 1..3): every list over a 4-cell "
    "sub-alphabet with repeats in every order x {select_indexes default / custom index_dimension, "
    "select_index for singletons}, also on datasets that already have 'index' and 'point' "
    "dimensions.  Point part: one case per (dataset, list length 1..4): every list over {interior "
    "hit, boundary tie, second cell, miss} x select_points {error, drop} x extract_dataframe {error, "
    "drop, fill} with an extra string column and custom point_dimension.  Non-trivial: lists with a "
    "repeat, a non-monotone order or at least one miss."
    ' Also: datasets with other dimensions of length one, overlapping cells, requests with blank (NaN) coordinates, and the history select / assign a variable in place / select again.'
    " Datasets also arrive with a history: warmed convention, copy, deep copy, pickle, netCDF round trip, fully chunked (dask), and hand-built conventions for coordinates autodetection would not pick (decoy pair), after warm / pickle. Also (operation sequences, mc/sequences.py): for 8 base datasets and every sequence `first [middle] query` over 36 operations (queries, in-place edits a user makes, transforms whose result is used next; quick length 2, thorough length 3) ending in one of this property's own queries, the answer on the one used object equals the answer on a never-used rebuild. Second phase: the first case of every distinct outcome and kind (thorough: every case, for expensive checks every kind) again with debug logging enabled, under numpy.errstate(all='ignore'), and in python -O child interpreters."
)
LEVEL_TEXT = ('every index list of length <=3 over 4 cells (repeats, all orders) on every grid kind, every point list of length <=4 over {hit, tie, second, miss} under every missing-point policy, for select_index(es), select_points and extract_dataframe, compared with builder labels')
LEVEL_NOTE = ('pandas/xarray merge semantics; all-miss with drop may be refused')
ASSUMPTIONS = [
    "all points missing with 'drop' may be refused (DESIGN 6)",
    "variables on no grid (time series) are not constrained by the property and not compared",
]


def bounds(tier):
    return {'index_list_length': '1..3 (thorough 1..4) over 4 cells', 'point_list_length': '1..4 over 4 symbols',
            'datasets': [repr(s) for s in datasets(tier)]}


def datasets(tier):
    specs = [
        {'family': 'cf1d', 'ny': 2, 'nx': 3, 'ints': True},
        {'family': 'cf2d', 'ny': 3, 'nx': 2, 'geometry': 'skew', 'holes': 'corner'},
        {'family': 'shoc_simple', 'ny': 2, 'nx': 2},
        {'family': 'shoc_standard', 'nj': 2, 'ni': 3, 'dry': 'farcorner'},
        {'family': 'ugrid', 'mesh': 'M4', 'supplied': ['edge_node'], 'ints': True},
        # other dimensions of length one must survive a selection
        {'family': 'cf1d', 'ny': 2, 'nx': 2, 'nt': 1, 'nk': 1},
        {'family': 'ugrid', 'mesh': 'M1', 'nt': 1, 'nk': 2},
        # overlapping cells: a point inside the overlap belongs to the lower index whatever was asked before it
        {'family': 'cf1d', 'ny': 2, 'nx': 3, 'bounds': 'overlap'},
    ]
    specs += [s for s in builders.history_specs('quick')
              if tier == 'thorough' or (len(s['history']) == 1 and s['family'] in ('cf2d', 'shoc_standard', 'ugrid')
                                        and s['history'][0] in ('warm', 'pickle', 'chunk'))]
    if tier == 'thorough':
        specs += [
            {'family': 'cf1d', 'ny': 3, 'nx': 4, 'lat_kind': 'desc', 'names': 'other', 'coords_as': 'var'},
            {'family': 'cf2d', 'ny': 3, 'nx': 4, 'holes': 'interior'},
            {'family': 'shoc_standard', 'nj': 3, 'ni': 4, 'geometry': 'skew', 'dry': 'corner'},
            {'family': 'ugrid', 'mesh': 'M7', 'start_index': 1},
            {'family': 'ugrid', 'mesh': 'M6', 'supplied': ['edge_node', 'face_edge'], 'fill': 'fillattr'},
            {'family': 'shoc_standard', 'nj': 2, 'ni': 2, 'nt': 1, 'nk': 1},
            {'family': 'cf2d', 'ny': 2, 'nx': 3, 'nt': 2, 'nk': 1, 'declare_reversed': True},
        ]
    return specs


def _cases_first_call(tier):
    out = []
    for spec in datasets(tier):
        _, truth = builders.build(spec)
        for kind in truth.get('data_kinds', truth.kinds):
            for length in ((1, 2, 3) if tier == 'quick' else (1, 2, 3, 4)):
                for taken in (False, True):
                    if taken and length != 2:
                        continue
                    out.append({'part': 'index', 'spec': spec, 'kind': kind, 'length': length, 'names_taken': taken})
        for length in (1, 2, 3, 4):
            out.append({'part': 'points', 'spec': spec, 'length': length})
    return out


def prepare_dataset(case):
    ds, truth = builders.build(case['spec'])
    # one missing value in a float variable on the default grid, at linear cell 1 (if it exists)
    nface = int(np.prod(truth.kinds['face']['shape']))
    nan_cell = 1 if nface > 1 else 0
    values = ds['botz'].values.copy()
    values.flat[nan_cell] = np.nan
    ds['botz'] = (ds['botz'].dims, values, ds['botz'].attrs)
    if case.get('names_taken'):
        ds['other'] = xr.DataArray(np.zeros((2, 2)), dims=['index', 'point'])
    return ds, truth, nan_cell


def expected_for(vt, size, shift, cells, nan_cell, kind, truth):
    """Expected values (extras..., request) for one variable."""
    full = ref.expected_values(vt, size, shift)
    if vt['name'] == 'botz' and kind == truth.default_kind:
        full = full.copy()
        full[..., nan_cell] = np.nan
    return full[..., list(cells)]


def compare_selection(rec, fp, result, truth, kind, cells, new_dim, shift, nan_cell, label, geometry_names):
    size = int(np.prod(truth.kinds[kind]['shape']))
    data_kinds = truth.get('data_kinds', truth.kinds)
    for vt in truth.vars.values():
        name = vt['name']
        if vt['kind'] is None:
            continue
        if vt['kind'] != kind:
            rec.check(name not in result.variables, f"{fp}/other-grid-variable-kept",
                      f"{label}: variable {name} on grid {vt['kind']} present after selecting on {kind}", 'absent', 'present')
            continue
        if name not in result.variables:
            rec.check(False, f"{fp}/variable-missing", f"{label}: {name} missing", name, sorted(map(str, result.variables)))
            continue
        got = result[name]
        want_dims = tuple(vt['extras']) + ((new_dim,) if new_dim is not None else ())
        if set(got.dims) != set(want_dims) or [d for d in got.dims if d != new_dim] != list(vt['extras']):
            rec.check(False, f"{fp}/dims", f"{label}: dims of {name}", want_dims, got.dims)
            continue
        want = expected_for(vt, size, shift, cells, nan_cell, kind, truth)
        if new_dim is None:
            want = want[..., 0]
        values = got.transpose(*want_dims).values
        rec.check(ref.same_values(values, want), f"{fp}/values", f"{label}: values of {name}", want, values)
        rec.check(values.dtype == np.dtype(vt['dtype']), f"{fp}/dtype", f"{label}: dtype of {name}", vt['dtype'], str(values.dtype))
    for name in geometry_names:
        rec.check(name not in result.variables, f"{fp}/geometry-kept", f"{label}: geometry variable {name} present", 'absent', 'present')


def run_index_case(case, rec):
    ds, truth, nan_cell = prepare_dataset(case)
    convention = ds.ems
    kind = case['kind']
    shape = tuple(truth.kinds[kind]['shape'])
    size = int(np.prod(shape))
    fp = f"C05/{truth.family}/{kind}/index"
    kind_obj = builders.grid_kind_object(truth, kind)
    alphabet = sorted({0, min(1, size - 1), size // 2, size - 1})
    natives = {n: builders.native_index(truth, kind, ref.row_major_unravel(n, shape)) for n in alphabet}
    geometry_names = [g for g in truth.geometry_names]
    shift = truth.shift

    for cells in itertools.product(alphabet, repeat=case['length']):
        if len(set(cells)) < len(cells) or list(cells) != sorted(cells):
            rec.nontrivial(cells)
        indexes = [natives[n] for n in cells]
        for dim_name in (None, 'station'):
            kwargs = {} if dim_name is None else {'index_dimension': dim_name}
            label = f"select_indexes({list(cells)}, {kwargs})"
            try:
                result = lib(convention.select_indexes, indexes, **kwargs)
            except LibraryRaised as err:
                rec.check(False, f"{fp}/raised", label, 'dataset', str(err))
                continue
            new_dims = [d for d in result.dims if d not in ds.dims]
            expected_new = dim_name if dim_name else None
            if dim_name is None:
                if len(new_dims) != 1:
                    rec.check(False, f"{fp}/new-dimension", f"{label}: new dimensions", 'exactly one', new_dims)
                    continue
                expected_new = new_dims[0]
            rec.check(expected_new in result.dims and result.sizes[expected_new] == len(cells),
                      f"{fp}/new-dimension", f"{label}: size of new dimension", len(cells), dict(result.sizes))
            compare_selection(rec, fp, result, truth, kind, cells, expected_new, shift, nan_cell, label, geometry_names)
        if len(cells) == 1:
            label = f"select_index({cells[0]})"
            try:
                result = lib(convention.select_index, indexes[0])
                compare_selection(rec, fp + '-single', result, truth, kind, cells, None, shift, nan_cell, label, geometry_names)
            except LibraryRaised as err:
                rec.check(False, f"{fp}-single/raised", label, 'dataset', str(err))
    # variables of the other grids held as xarray coordinates (as a `coordinates` attribute in a file makes them): they are
    # no more part of a selection on this grid than when they are data variables
    if case['length'] == 1 and not case['names_taken'] and not case['spec'].get('history') and len(truth.kinds) > 1:
        others = [name for name, vt in truth.vars.items() if vt['kind'] not in (None, kind) and name in ds.variables]
        if others:
            rec.nontrivial('other-grid-coordinates')
            promoted = ds.set_coords(others)
            try:
                result = lib(promoted.ems.select_indexes, [natives[alphabet[0]]])
                left = [name for name in others if name in result.variables]
                rec.check(not left, f"{fp}/other-grid-variable-kept", "select_indexes: variables of other grids held as coordinates", [], left)
            except LibraryRaised as err:
                rec.check(False, f"{fp}/raised", "select_indexes with other-grid variables held as coordinates", 'dataset', str(err))
    # one long request (5000 entries, every cell many times, in an order that is neither sorted nor periodic in the grid)
    if case['length'] == 1 and not case['names_taken'] and not case['spec'].get('history'):
        rec.nontrivial('long-request')
        cells = [(k * 7919 + (k * k) % 13) % size for k in range(5000)]
        label = "select_indexes(5000 unsorted requests)"
        try:
            result = lib(convention.select_indexes, [builders.native_index(truth, kind, ref.row_major_unravel(n, shape)) for n in cells])
            new_dims = [d for d in result.dims if d not in ds.dims]
            if rec.check(len(new_dims) == 1 and result.sizes[new_dims[0]] == len(cells), f"{fp}/new-dimension", f"{label}: new dimension",
                         len(cells), dict(result.sizes)):
                compare_selection(rec, fp, result, truth, kind, cells, new_dims[0], shift, nan_cell, label, geometry_names)
        except LibraryRaised as err:
            rec.check(False, f"{fp}/raised", label, 'dataset', str(err))
    # state carried between calls: after a selection the user assigns a new variable and replaces another one on
    # the same dataset object; the next selection must show the dataset as it is now
    if case['length'] == 1 and not case['names_taken'] and kind == truth.default_kind:
        rec.nontrivial('select-assign-select')
        first = alphabet[-1]
        try:
            lib(convention.select_indexes, [natives[first]])
            ds['added_later'] = ds['botz'] * 2 + 1
            ds['eta'] = ds['eta'] + 7
            again = lib(convention.select_indexes, [natives[first]])
            botz_label = ref.expected_values(truth.vars['botz'], size, shift)[..., first]
            eta_label = ref.expected_values(truth.vars['eta'], size, shift)[..., first]
            want_added = botz_label * 2 + 1 if first != nan_cell else np.nan
            got_added = float(again['added_later'].values.ravel()[0]) if 'added_later' in again.variables else None
            ok = got_added is not None and (got_added == want_added or (got_added != got_added and want_added != want_added))
            rec.check(ok, f"{fp}/stale-after-assignment", "a variable assigned after an earlier selection is missing or wrong in the next selection",
                      want_added, got_added)
            if not rec.check('eta' in again.variables, f"{fp}/stale-after-assignment", "a variable replaced after an earlier selection is missing from the next selection",
                             'eta', sorted(map(str, again.variables))):
                raise LibraryRaised(KeyError('eta'))
            got_eta = again['eta'].transpose(*truth.vars['eta']['extras'], ...).values.ravel()
            rec.check(ref.same_values(got_eta.astype('float64'), (eta_label + 7).astype('float64').ravel()), f"{fp}/stale-after-assignment",
                      "a variable replaced after an earlier selection still shows its old values", (eta_label + 7).ravel(), got_eta)
        except LibraryRaised as err:
            rec.check(False, f"{fp}/raised", "select / assign / select raised", 'dataset', str(err))
    rec.outcome([truth.family, kind, case['length'], case['names_taken']])


def point_symbols(truth):
    """hit: interior of a cell; tie: a point shared by >= 2 cells if there is one; second: interior of
    another cell; miss: interior of a hole if the dataset has one, else a far point."""
    polys = ref.ref_polygons(truth)
    valid = [n for n, p in enumerate(polys) if p is not None]
    first, second = valid[0], valid[-1]
    symbols = {'hit': polys[first].representative_point(), 'second': polys[second].representative_point()}
    tie = None
    for n in valid:
        for c in polys[n].exterior.coords:
            pt = Point(c)
            if len(ref.brute_hits(polys, pt)) >= 2:
                tie = pt
                break
        if tie is not None:
            break
    symbols['tie'] = tie if tie is not None else polys[second].representative_point()
    # datasets whose cells overlap: a point strictly inside the overlap of cells a < b (belongs to a), and a point
    # that only the higher cell b holds; asked in either order the answers must be a and b
    for a in valid:
        found = False
        for b in valid:
            if b <= a:
                continue
            shared = polys[a].intersection(polys[b])
            if shared.area > 0:
                only_b = polys[b]
                for other in valid:
                    if other != b:
                        only_b = only_b.difference(polys[other])
                if only_b.area > 0:
                    symbols['tie'] = shared.representative_point()
                    symbols['second'] = only_b.representative_point()
                    tie = symbols['tie']
                    found = True
                    break
        if found:
            break
    miss = Point(1000.0, 1000.0)
    holes = [n for n, c in enumerate(truth.polygons) if c is None]
    # prefer a point outside every cell that is still inside the bounding box of exactly one cell
    for n in valid:
        minx, miny, maxx, maxy = polys[n].bounds
        found = None
        for fx, fy in ((0.03125, 0.03125), (0.96875, 0.03125), (0.03125, 0.96875), (0.96875, 0.96875)):
            candidate = Point(minx + fx * (maxx - minx), miny + fy * (maxy - miny))
            if not ref.brute_hits(polys, candidate):
                boxes = [m for m in valid if polys[m].envelope.intersects(candidate)]
                if len(boxes) == 1:
                    found = candidate
                    break
        if found is not None:
            miss = found
            break
    symbols['miss'] = miss
    # twins: two requests closer together than any sensible rounding (2^-26 of a degree, under a centimetre), one just
    # inside the model, one just outside it
    symbols['twin-in'] = symbols['twin-out'] = None
    union = shapely.union_all([polys[n] for n in valid])
    eps = 2.0 ** -27
    for n in valid:
        ring = list(polys[n].exterior.coords)
        for (ax, ay), (bx, by) in zip(ring[:-1], ring[1:]):
            mx, my = (ax + bx) / 2, (ay + by) / 2
            dx, dy = by - ay, -(bx - ax)
            norm = max(abs(dx), abs(dy))
            if norm == 0:
                continue
            dx, dy = dx / norm * eps, dy / norm * eps
            for sx in (1.0, -1.0):
                inside, outside = Point(mx - sx * dx, my - sx * dy), Point(mx + sx * dx, my + sx * dy)
                if ref.brute_hits(polys, inside) == [n] and not ref.brute_hits(polys, outside) and not union.covers(outside):
                    symbols['twin-in'], symbols['twin-out'] = inside, outside
                    break
            if symbols['twin-in'] is not None:
                break
        if symbols['twin-in'] is not None:
            break
    symbols['_polys'] = polys
    symbols['_has_tie'] = tie is not None
    symbols['_holes'] = holes
    return symbols


def run_points_case(case, rec):
    ds, truth, nan_cell = prepare_dataset(case)
    convention = ds.ems
    from emsarray.operations import point_extraction
    fp = f"C05/{truth.family}/points"
    symbols = point_symbols(truth)
    polys = symbols['_polys']
    shift = truth.shift
    kind = truth.default_kind
    geometry_names = list(truth.geometry_names)

    def cell_of(pt):
        hits = ref.brute_hits(polys, pt)
        return min(hits) if hits else None

    names = ['hit', 'tie', 'second', 'miss']
    if case['length'] <= 3:
        # a request with missing coordinates (a blank cell of a table) intersects nothing: one more kind of miss
        names = names + ['blank']
        symbols['blank'] = Point(float('nan'), float('nan'))
    if case['length'] <= 2 and symbols.get('twin-in') is not None:
        names = names + ['twin-in', 'twin-out']
    for combo in itertools.product(names, repeat=case['length']):
        points = [symbols[s] for s in combo]
        cells = [cell_of(p) for p in points]
        misses = [k for k, c in enumerate(cells) if c is None]
        hits = [k for k, c in enumerate(cells) if c is not None]
        hit_cells = [cells[k] for k in hits]
        if misses or len(set(hit_cells)) < len(hit_cells) or hit_cells != sorted(hit_cells):
            rec.nontrivial(combo)

        for policy in ('error', 'drop'):
            for dim_name in ((None, 'site') if case['length'] <= 2 else (None,)):
                kwargs = {'missing_points': policy}
                if dim_name:
                    kwargs['point_dimension'] = dim_name
                new_dim = dim_name or 'point'
                label = f"select_points({list(combo)}, {kwargs})"
                try:
                    result = lib(convention.select_points, points, **kwargs)
                except LibraryRaised as err:
                    exc = err.exc
                    if policy == 'error' and misses:
                        ok = isinstance(exc, point_extraction.NonIntersectingPoints) and \
                            [int(i) for i in exc.indexes] == misses
                        rec.check(ok, f"{fp}/error-names-wrong-points", f"{label}: points named by the error",
                                  misses, getattr(exc, 'indexes', repr(exc)))
                    elif policy == 'drop' and not hits:
                        rec.step()  # refusal accepted when nothing is left
                    else:
                        rec.check(False, f"{fp}/raised", label, 'dataset', str(err))
                    continue
                if policy == 'error' and misses:
                    rec.check(False, f"{fp}/error-policy-did-not-raise", label, 'NonIntersectingPoints', 'returned')
                    continue
                rec.check(new_dim in result.dims and result.sizes[new_dim] == len(hits), f"{fp}/size",
                          f"{label}: number of rows", len(hits), dict(result.sizes))
                if new_dim not in result.dims or result.sizes[new_dim] != len(hits):
                    continue
                rec.check(new_dim in result.coords and [int(v) for v in result[new_dim].values] == hits,
                          f"{fp}/positions", f"{label}: coordinate holds the original positions", hits,
                          result[new_dim].values if new_dim in result.coords else None)
                compare_selection(rec, fp, result, truth, kind, hit_cells, new_dim, shift, nan_cell, label, geometry_names)

        # extract_dataframe with an extra string column
        frame = pandas.DataFrame({
            'lon': [p.x for p in points], 'lat': [p.y for p in points],
            'name': [f'row{k}' for k in range(len(points))],
        })
        # a table with a column called like the point dimension: either refused outright, or the rows come back -- never
        # a result that silently has no rows at all
        if case['length'] <= 2 and hits and not misses:
            named = frame.assign(point=[f'p{k}' for k in range(len(points))])
            for label, kwargs, clash in (("column 'point', default dimension", {}, True),
                                         ("column 'point', point_dimension='station'", {'point_dimension': 'station'}, False)):
                dim = kwargs.get('point_dimension', 'point')
                try:
                    got = lib(point_extraction.extract_dataframe, ds, named, ('lon', 'lat'), **kwargs)
                    rec.check(dim in got.dims and got.sizes[dim] == len(points), f"{fp}/dataframe-rows",
                              f"extract_dataframe({list(combo)}, table with a {label}): rows kept", len(points), dict(got.sizes))
                except LibraryRaised as err:
                    rec.check(clash and isinstance(err.exc, ValueError), f"{fp}/dataframe-raised",
                              f"extract_dataframe({list(combo)}, table with a {label})", 'rows, or a ValueError about the name', str(err))
        # the table's own row labels are not positions: labels left over from filtering a longer table, reversed, names
        n_rows = len(points)
        labelled = [('positions', frame)]
        if case['length'] <= 3:
            labelled += [
                ('filtered-labels', frame.set_axis([3 * k + 2 for k in range(n_rows)], axis=0)),
                ('reversed-labels', frame.set_axis(list(range(n_rows))[::-1], axis=0)),
                ('named-rows', frame.set_axis([f'station-{k}' for k in range(n_rows)], axis=0)),
            ]
        for (labels, frame), policy in itertools.product(labelled, ('error', 'drop', 'fill')):
            label = f"extract_dataframe({list(combo)}, {policy}{'' if labels == 'positions' else ', table with ' + labels})"
            if labels != 'positions':
                rec.nontrivial(('labels', labels, combo))
            try:
                result = lib(point_extraction.extract_dataframe, ds, frame, ('lon', 'lat'), missing_points=policy)
            except LibraryRaised as err:
                exc = err.exc
                if policy == 'error' and misses:
                    ok = isinstance(exc, point_extraction.NonIntersectingPoints) and [int(i) for i in exc.indexes] == misses
                    rec.check(ok, f"{fp}/error-names-wrong-points", label, misses, getattr(exc, 'indexes', repr(exc)))
                elif policy in ('drop', 'fill') and not hits:
                    rec.step()
                else:
                    rec.check(False, f"{fp}/dataframe-raised", label, 'dataset', str(err))
                continue
            if policy == 'error' and misses:
                rec.check(False, f"{fp}/error-policy-did-not-raise", label, 'NonIntersectingPoints', 'returned')
                continue
            if policy == 'fill' and misses and hits and labels == 'positions':
                # the documented fill_value keyword: missed rows hold it instead of NaN, in every numeric variable
                try:
                    marked = lib(point_extraction.extract_dataframe, ds, frame, ('lon', 'lat'), missing_points='fill', fill_value=-999.0)
                    for vt in truth.vars.values():
                        if vt['kind'] != kind or vt['name'] not in marked.variables:
                            continue
                        got = np.asarray(marked[vt['name']].transpose(*vt['extras'], 'point').values, dtype='float64')
                        if not rec.check(got.shape[-1] == len(points), f"{fp}/dataframe-rows", f"{label}, fill_value=-999: rows kept",
                                         len(points), got.shape[-1]):
                            break
                        rec.check(bool(np.all(got[..., misses] == -999.0)), f"{fp}/fill-value-ignored",
                                  f"{label}, fill_value=-999: missed rows of {vt['name']}", -999.0, got[..., misses].ravel()[:4])
                except LibraryRaised as err:
                    rec.check(False, f"{fp}/dataframe-raised", f"{label}, fill_value=-999", 'dataset', str(err))
            rows = list(range(len(points))) if policy == 'fill' else hits
            ok = 'point' in result.dims and [v.item() if hasattr(v, 'item') else v for v in result['point'].values] == rows
            rec.check(ok, f"{fp}/dataframe-rows", f"{label}: rows kept", rows,
                      result['point'].values if 'point' in result.variables else dict(result.sizes))
            if not ok:
                continue
            for column, want in (('name', [f'row{k}' for k in rows]), ('lon', [points[k].x for k in rows]),
                                 ('lat', [points[k].y for k in rows])):
                got = list(result[column].values) if column in result.variables else None
                same = got is not None and len(got) == len(want) and all(
                    (a == b) or (isinstance(a, float) and isinstance(b, float) and a != a and b != b) for a, b in zip(got, want))
                rec.check(same, f"{fp}/dataframe-columns", f"{label}: column {column}", want, got)
            size = int(np.prod(truth.kinds[kind]['shape']))
            for vt in truth.vars.values():
                if vt['kind'] != kind:
                    if vt['kind'] is not None:
                        rec.check(vt['name'] not in result.variables, f"{fp}/other-grid-variable-kept",
                                  f"{label}: {vt['name']}", 'absent', 'present')
                    continue
                name = vt['name']
                if name not in result.variables:
                    rec.check(False, f"{fp}/variable-missing", f"{label}: {name}", name, 'absent')
                    continue
                got = result[name].transpose(*vt['extras'], 'point').values
                full = ref.expected_values(vt, size, shift).astype('float64')
                if name == 'botz':
                    full[..., nan_cell] = np.nan
                want = np.full(full.shape[:-1] + (len(rows),), np.nan)
                for col, k in enumerate(rows):
                    if cells[k] is not None:
                        want[..., col] = full[..., cells[k]]
                rec.check(ref.same_values(np.asarray(got, dtype='float64'), want), f"{fp}/dataframe-values",
                          f"{label}: values of {name}", want, got)
            for name in geometry_names:
                if name in frame.columns:
                    continue  # the table's own coordinate columns legitimately carry these names
                rec.check(name not in result.variables, f"{fp}/geometry-kept", f"{label}: {name}", 'absent', 'present')
    rec.outcome([truth.family, 'points', case['length'], symbols['_has_tie']])


def _run_case_first_call(case):
    rec = Recorder()
    if case['part'] == 'index':
        run_index_case(case, rec)
    else:
        run_points_case(case, rec)
    return rec.result()


from ..runner import coarse_environment_key as environment_key  # noqa: E402  (expensive cases: second phase on one case per kind)
ENVIRONMENTS_ON_REPRESENTATIVES_ONLY = True


def cases(tier):
    # first calls on freshly built datasets, then operation sequences on one object (mc/sequences.py)
    return _cases_first_call(tier) + sequences.cases_for(PROPERTY, tier)


def run_case(case):
    if case.get('part') == 'sequence':
        rec = Recorder()
        sequences.run_case(PROPERTY, case, rec)
        return rec.result()
    return _run_case_first_call(case)
