"""
Shared machinery for C08 / C09: the bounded history space of clip masks.

A case = (dataset spec, regime in {memory, file, raw}, geometry name, buffer).  Inside a case the three
pipelines a mask can go through are all executed, each with a fresh work directory:

    direct   : mask = make_clip_mask(g, buffer);           out = A.apply_clip_mask(mask)
    reloaded : mask -> netCDF -> open_dataset -> mask2;    out = A.apply_clip_mask(mask2)
    other    : B = same geometry, different data labels;   out = B.apply_clip_mask(mask2)

`run_pipelines` yields (pipeline name, input dataset, truth of the input, mask, loaded output or the
LibraryRaised that stopped it).
"""
from __future__ import annotations

import os

import numpy as np
import xarray as xr

from . import builders, env, ref
from .checks import c07
from .runner import LibraryRaised, lib

GEOMETRIES = ('tiny', 'cell-envelope', 'everything', 'line', 'two-part', 'with-hole')


def dataset_specs(tier: str, purpose: str) -> list[dict]:
    quick = tier == 'quick'
    specs = [
        {'family': 'cf1d', 'ny': 3, 'nx': 4, 'ints': True},
        {'family': 'cf1d', 'ny': 3, 'nx': 3, 'bounds': 'var', 'lat_kind': 'desc', 'names': 'other', 'coords_as': 'var'},
        {'family': 'cf1d', 'ny': 3, 'nx': 3, 'bounds': 'coord', 'lon_kind': 'nonuni'},
        {'family': 'cf2d', 'ny': 3, 'nx': 4, 'geometry': 'skew', 'ints': True},
        {'family': 'cf2d', 'ny': 3, 'nx': 3, 'geometry': 'rect', 'coords_as': 'var'},
        {'family': 'cf2d', 'ny': 3, 'nx': 3, 'geometry': 'rect', 'bounds': 'derived'},
        {'family': 'shoc_simple', 'ny': 3, 'nx': 3, 'geometry': 'skew', 'holes': 'corner'},
        {'family': 'shoc_standard', 'nj': 3, 'ni': 4, 'ints': True},
        {'family': 'shoc_standard', 'nj': 3, 'ni': 3, 'geometry': 'skew', 'dry': 'farcorner', 'coords_as': 'var'},
        {'family': 'ugrid', 'mesh': 'M7', 'ints': True},
        {'family': 'ugrid', 'mesh': 'M4', 'supplied': ['edge_node'], 'start_index': 1, 'fill': 'fillattr'},
        {'family': 'ugrid', 'mesh': 'M4', 'coords_as': 'coord', 'face_coords': True},
        {'family': 'ugrid', 'mesh': 'M6', 'supplied': ['edge_node', 'face_face', 'edge_face'], 'start_index': 1, 'fill': 'fillattr',
         'start_index_by_table': {'face_face': 0, 'edge_face': 0}, 'omit_zero_start_index': True, 'edge_face_missing_first': True},
        {'family': 'ugrid', 'mesh': 'M7', 'supplied': ['face_face'], 'start_index_by_table': {'face_face': 1}, 'extra_width': 1},
        {'family': 'cf1d', 'ny': 3, 'nx': 4, 'bounds_lat': 'var', 'bounds_lon': 'none', 'lat_kind': 'nonuni', 'lon_kind': 'nonuni'},
        {'family': 'shoc_standard', 'nj': 3, 'ni': 3, 'fortran': True},
    ]
    if not quick:
        specs += [
            {'family': 'cf1d', 'ny': 4, 'nx': 4, 'bounds': 'coord', 'lat_kind': 'descnonuni', 'declare_reversed': True},
            {'family': 'cf1d', 'ny': 2, 'nx': 5, 'bounds': 'gapped', 'ints': True},
            {'family': 'cf2d', 'ny': 4, 'nx': 4, 'geometry': 'rot', 'holes': 'interior'},
            {'family': 'cf2d', 'ny': 4, 'nx': 3, 'geometry': 'skew', 'bounds': 'derived', 'coords_as': 'var'},
            {'family': 'shoc_simple', 'ny': 4, 'nx': 4, 'ints': True},
            {'family': 'shoc_simple', 'ny': 3, 'nx': 3, 'coords_as': 'var'},
            {'family': 'shoc_standard', 'nj': 4, 'ni': 4, 'dry': 'corner'},
            {'family': 'shoc_standard', 'nj': 2, 'ni': 2},
            {'family': 'ugrid', 'mesh': 'M5', 'supplied': ['edge_node', 'face_edge'], 'fill': 'nan'},
            {'family': 'ugrid', 'mesh': 'M6', 'ints': True, 'start_index': 1},
            {'family': 'ugrid', 'mesh': 'M8', 'supplied': ['face_face'], 'fill': 'fillattr'},
            {'family': 'ugrid', 'mesh': 'M9', 'supplied': ['edge_node', 'edge_face'], 'transposed': True},
        ]
    # datasets and conventions that have been used, copied, pickled, saved or chunked before being clipped
    specs += [
        {'family': 'ugrid', 'mesh': 'M1', 'supplied': ['edge_node', 'edge_face'], 'two_dim': 'nv', 'start_index': 1},
        {'family': 'ugrid', 'mesh': 'M4', 'supplied': ['edge_node'], 'two_dim': 'nv', 'nt': 2, 'nk': 2},
    ]
    specs += [
        # coordinates packed as scaled integers, with missing corners, held as xarray coordinates
        {'family': 'shoc_standard', 'nj': 3, 'ni': 3, 'dry': 'corner', 'coords_as': 'coord', 'pack_coords': True},
        {'family': 'cf2d', 'ny': 3, 'nx': 3, 'geometry': 'skew', 'holes': 'corner', 'coords_as': 'coord', 'pack_coords': True},
        # conventions constructed by hand for the coordinates autodetection finds as well: the clipped dataset is detected afresh
        {'family': 'cf1d', 'ny': 3, 'nx': 4, 'bounds': 'var', 'explicit_names': True},
        {'family': 'cf2d', 'ny': 3, 'nx': 3, 'geometry': 'skew', 'explicit_names': True},
    ]
    specs += [
        {'family': 'shoc_standard', 'nj': 3, 'ni': 3, 'dry': 'corner', 'big_endian': True},
        {'family': 'ugrid', 'mesh': 'M4', 'supplied': ['edge_node', 'face_face'], 'fill': 'fillattr', 'start_index': 1, 'big_endian': True},
    ]
    specs += [
        {'family': 'cf1d', 'ny': 3, 'nx': 4, 'packed_data': True},
        {'family': 'shoc_standard', 'nj': 3, 'ni': 3, 'packed_data': True, 'dry': 'corner'},
        {'family': 'ugrid', 'mesh': 'M4', 'supplied': ['edge_node', 'face_face'], 'fill': 'fillattr', 'deflate': True},
        {'family': 'cf2d', 'ny': 3, 'nx': 3, 'geometry': 'skew', 'deflate': True, 'packed_data': True},
    ]
    if purpose == 'C08':
        # the mask of a double precision grid file applied to single precision output of the same grid: the axis
        # values are not binary fractions, so the two files' coordinate labels differ in the last digits
        specs.append({'family': 'cf1d', 'ny': 3, 'nx': 4, 'lat_kind': 'tenths', 'lon_kind': 'tenths', 'lat0': 0.0, 'lon0': 0.0,
                      'bounds': 'none', 'float32_twin': True})
    # no records yet (a grid or template file with an unlimited time axis), and a single record
    specs += [
        {'family': 'cf1d', 'ny': 3, 'nx': 3, 'nt': 0, 'ints': True},
        {'family': 'cf2d', 'ny': 3, 'nx': 3, 'geometry': 'skew', 'nt': 0},
        {'family': 'shoc_standard', 'nj': 3, 'ni': 3, 'nt': 0, 'dry': 'corner'},
        {'family': 'ugrid', 'mesh': 'M4', 'nt': 0},
        {'family': 'shoc_simple', 'ny': 3, 'nx': 3, 'nt': 1, 'nk': 1},
    ]
    # (quick: three histories on three families; thorough: every history of the quick list on every family -- the
    # length-2 product is explored by the checks whose cases are cheaper than a clip)
    for s in builders.history_specs('quick'):
        if s.get('explicit_names'):
            continue    # a clipped dataset is a new dataset, detected afresh: not the hand-bound grid any more
        if not quick or (s['history'] in (['warm'], ['pickle'], ['chunk']) and s['family'] in ('cf2d', 'shoc_standard', 'ugrid')):
            specs.append(s)
    return specs


def mesh_table_specs(tier: str) -> list[dict]:
    """Every subset of the optional connectivity variables x index base x fill representation."""
    import itertools
    out = []
    meshes = ['M4'] if tier == 'quick' else ['M4', 'M6', 'M7', 'M8']
    for mesh in meshes:
        for r in range(len(builders.OPTIONAL_TABLES) + 1):
            for supplied in itertools.combinations(builders.OPTIONAL_TABLES, r):
                for start_index in (0, 1):
                    for fill in ('nan', 'fillattr'):
                        if tier == 'quick' and (start_index, fill) not in ((0, 'nan'), (1, 'fillattr')):
                            continue
                        out.append({'family': 'ugrid', 'mesh': mesh, 'supplied': list(supplied),
                                    'start_index': start_index, 'fill': fill})
    return out


def narrow_dtype_specs(tier: str) -> list[dict]:
    """Connectivity stored in the narrowest integer type that holds it, on meshes with more than 99 (int8)
    / 9999 (int16, thorough) elements: fill values have to be clamped to the type."""
    nodes, faces = builders._lattice_mesh(10, 10)
    specs = [{'family': 'ugrid', 'mesh': 'lattice-10x10', 'nodes': nodes, 'faces': faces, 'conn_dtype': 'int8',
              'fill': 'fillattr', 'supplied': ['face_face'], 'nt': 1, 'nk': 1}]
    if tier == 'thorough':
        nodes, faces = builders._lattice_mesh(100, 100)
        specs.append({'family': 'ugrid', 'mesh': 'lattice-100x100', 'nodes': nodes, 'faces': faces, 'conn_dtype': 'int16',
                      'fill': 'fillattr', 'nt': 1, 'nk': 1})
    return specs


def clip_cases(tier: str, purpose: str) -> list[dict]:
    quick = tier == 'quick'
    out = []
    for spec in narrow_dtype_specs(tier):
        for regime in ('file', 'raw'):
            for geom in ('everything', 'with-hole'):
                out.append({'spec': spec, 'regime': regime, 'geometry': geom, 'buffer': 0})
    geometries = GEOMETRIES if not quick else ('tiny', 'cell-envelope', 'everything', 'line', 'with-hole')
    buffers = (0, 1)
    for spec in dataset_specs(tier, purpose):
        for regime in ('memory', 'file'):
            for geom in geometries:
                for buffer in buffers:
                    if quick and buffer == 1 and geom not in ('tiny', 'line'):
                        continue
                    out.append({'spec': spec, 'regime': regime, 'geometry': geom, 'buffer': buffer})
    for spec in mesh_table_specs(tier):
        for regime in ('memory', 'file', 'raw'):
            if regime == 'raw' and spec['fill'] != 'fillattr':
                continue
            for geom, buffer in (('tiny', 0), ('two-part', 0), ('line', 1)) if quick else \
                    (('tiny', 0), ('two-part', 0), ('cell-envelope', 0), ('tiny', 1), ('line', 0), ('with-hole', 0), ('everything', 0)):
                out.append({'spec': spec, 'regime': regime, 'geometry': geom, 'buffer': buffer})
    return out


def prepare(spec: dict, regime: str, tmp: str, tag: str):
    ds, truth = builders.build(spec)
    if spec.get('packed_data') and regime != 'memory':
        # a data variable stored packed (scaled integers with a fill value), as most ocean archives do
        ds['botz'].encoding.update({'dtype': 'int32', 'scale_factor': 0.5, 'add_offset': 100.0, '_FillValue': -2147483647})
    if spec.get('deflate') and regime == 'file':
        # source files written with compression
        import os
        path = os.path.join(tmp, f'{tag}.nc')
        ds.to_netcdf(path, encoding={str(name): {'zlib': True, 'complevel': 1, 'shuffle': True} for name in ds.variables
                                     if ds[name].dtype.kind in 'fiu' and ds[name].ndim > 0})
        return xr.open_dataset(path), truth
    if regime == 'file':
        ds = builders.reopen(ds, tmp, f'{tag}.nc')
    elif regime == 'raw':
        ds = builders.reopen(ds, tmp, f'{tag}.nc', mask_and_scale=False)
    return ds, truth


def run_pipelines(case: dict, tmp: str):
    """Generator over the three pipelines; see module docstring."""
    spec = dict(case['spec'])
    spec['seed'] = case.get('seed', 0)
    ds_a, truth_a = prepare(spec, case['regime'], tmp, 'a')
    spec_b = dict(spec)
    spec_b['seed'] = spec['seed'] + 1      # same geometry, different labels
    ds_b, truth_b = prepare(spec_b, case['regime'], tmp, 'b')
    if spec.get('float32_twin'):
        for name in (truth_b.lat_name, truth_b.lon_name):
            ds_b[name] = ds_b[name].astype('float32')

    polys = ref.ref_polygons(truth_a)
    geoms, _ = c07.palette(truth_a, polys)
    geom = geoms[case['geometry']]
    if not any(p is not None and not isinstance(p, str) and p.intersects(geom) for p in polys):
        # the geometry touches no cell of this dataset (the hole of 'with-hole' swallows a two-cell mesh):
        # there is nothing to keep, and whether that is refused or how is not part of these properties
        return

    try:
        conv_a = lib(lambda: ds_a.ems)
        mask = lib(conv_a.make_clip_mask, geom, buffer=case['buffer'])
    except LibraryRaised as err:
        yield 'direct', ds_a, truth_a, None, err
        return

    def apply(ds, mask_ds, name):
        work = os.path.join(tmp, f'work-{name}')
        os.mkdir(work)
        out = lib(ds.ems.apply_clip_mask, mask_ds, work)
        out = lib(out.load)
        return out

    # what the mask says is read from copies taken before its first use (a mask is made once and applied to
    # many files; applying it must not depend on, or change, what an earlier application left behind)
    pristine = mask.copy(deep=True)
    try:
        out = apply(ds_a, mask, 'direct')
    except LibraryRaised as err:
        out = err
    yield 'direct', ds_a, truth_a, pristine, out
    try:
        out = apply(ds_b, mask, 'direct-again')
    except LibraryRaised as err:
        out = err
    yield 'direct-again', ds_b, truth_b, pristine, out

    mask_path = os.path.join(tmp, 'mask.nc')
    try:
        lib(mask.to_netcdf, mask_path)
        mask2 = lib(xr.open_dataset, mask_path)
    except LibraryRaised as err:
        yield 'reloaded', ds_a, truth_a, mask, err
        return
    try:
        out = apply(ds_a, mask2, 'reloaded')
    except LibraryRaised as err:
        out = err
    yield 'reloaded', ds_a, truth_a, pristine, out
    try:
        out = apply(ds_b, mask2, 'other')
    except LibraryRaised as err:
        out = err
    yield 'other', ds_b, truth_b, pristine, out


# ---------------------------------------------------------------------------------------------
# what a mask selects, read from the mask itself (the masks' correctness is C07's business)


def grid_selection(truth, mask) -> dict:
    """kind -> (boolean array of the full grid, crop slices per dimension)."""
    names = {'face': 'cell_mask'} if truth.family != 'shoc_standard' else \
        {k: f'{k}_mask' for k in ('face', 'left', 'back', 'node')}
    out = {}
    for kind, var in names.items():
        values = np.asarray(mask[var].values, dtype=bool)
        dims = tuple(truth.kinds[kind]['dims'])
        slices = {}
        for axis, dim in enumerate(dims):
            other = tuple(a for a in range(values.ndim) if a != axis)
            present = np.flatnonzero(values.any(axis=other))
            slices[dim] = (int(present[0]), int(present[-1]) + 1)
        out[kind] = (values, slices)
    return out


def mesh_selection(truth, mask) -> dict:
    """kind -> list of kept old indexes, in original order."""
    out = {}
    for kind, var in (('face', 'new_face_index'), ('node', 'new_node_index'), ('edge', 'new_edge_index')):
        if var in mask:
            values = mask[var].values
            out[kind] = [int(i) for i in np.flatnonzero(~np.isnan(values.astype('float64')))]
    return out
