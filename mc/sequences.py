"""
Operation sequences on ONE dataset / convention object, compared step by step with a clean run.

The other parts of each check look at the first call on a freshly built dataset.  Here the state
space is "what has already been done with this object": every sequence over a small alphabet of

  query      -- a call whose answer is observed (convention methods and properties),
  mutate     -- something a user legitimately does to their own dataset in place
                (replace a variable, add one, repair an attribute),
  transform  -- a documented operation that returns a new dataset which the program carries on
                with (select_variables, isel, copy, pickle, normalize_depth_variables, ...),

up to a stated length.  Two executions are kept in lock step:

  used   -- one dataset object, everything applied to it (and to the convention bound to it);
  clean  -- rebuilt for every step from the builder, with only the mutations and transforms of
            the prefix replayed on objects that have never been queried (each transform gets a
            deep copy, so nothing it may do to its input can leak).

Oracle: each query on `used` equals the same query on `clean`; a query may raise on `used` only if
it raises on `clean`.  What the clean answer must be is the business of the first-call parts.
"""
from __future__ import annotations

import itertools
import pickle

import numpy as np
import xarray as xr

from . import builders
from .runner import LibraryRaised, lib


# ------------------------------------------------------------------------------- canonical forms


def canon(value):
    """Nested, comparable, JSON-like rendering of an observation."""
    import shapely
    if value is None or isinstance(value, (bool, int, str)):
        return value
    if isinstance(value, float):
        return 'nan' if value != value else value
    if isinstance(value, np.generic):
        return canon(value.item())
    if isinstance(value, (np.ndarray, np.ma.MaskedArray)):
        if isinstance(value, np.ma.MaskedArray):
            return ['masked', canon(np.ma.getdata(value)), canon(np.ma.getmaskarray(value))]
        if value.dtype == object:
            return ['objects', list(value.shape), [canon(v) for v in value.ravel()]]
        if value.dtype.kind == 'M':
            return ['times', list(value.shape), value.astype('datetime64[ns]').astype('int64').ravel().tolist()]
        if value.dtype.kind == 'f':
            flat = value.ravel()
            return ['array', str(value.dtype), list(value.shape), ['nan' if v != v else float(v) for v in flat]]
        return ['array', str(value.dtype), list(value.shape), value.ravel().tolist()]
    if isinstance(value, shapely.Geometry):
        return ['geometry', value.wkb_hex]
    if isinstance(value, xr.DataArray):
        return ['data-array', str(value.name), [str(d) for d in value.dims], canon(np.asarray(value.values)),
                canon(dict(value.attrs)), sorted(str(c) for c in value.coords)]
    if isinstance(value, xr.Dataset):
        return ['dataset', {str(k): int(v) for k, v in value.sizes.items()}, canon(dict(value.attrs)),
                {str(name): [[str(d) for d in var.dims], canon(np.asarray(var.values)), canon(dict(var.attrs)), name in value.coords]
                 for name, var in sorted(value.variables.items(), key=lambda kv: str(kv[0]))}]
    if isinstance(value, dict):
        return {str(k): canon(v) for k, v in sorted(value.items(), key=lambda kv: str(kv[0]))}
    if isinstance(value, (list, tuple)):
        return [canon(v) for v in value]
    if hasattr(value, '_asdict'):
        return canon(value._asdict())
    return repr(value)


def first_difference(a, b, path=''):
    if type(a) is not type(b):
        return f"{path}: {str(a)[:80]} vs {str(b)[:80]}"
    if isinstance(a, dict):
        if a.keys() != b.keys():
            return f"{path}: keys {sorted(set(a) ^ set(b))[:6]}"
        for k in a:
            d = first_difference(a[k], b[k], f"{path}/{k}")
            if d:
                return d
        return None
    if isinstance(a, list):
        if len(a) != len(b):
            return f"{path}: length {len(a)} vs {len(b)}"
        for n, (x, y) in enumerate(zip(a, b)):
            d = first_difference(x, y, f"{path}[{n}]")
            if d:
                return d
        return None
    return None if a == b else f"{path}: {str(a)[:80]} vs {str(b)[:80]}"


# ------------------------------------------------------------------------------------ alphabets


def _first_polygon(ds):
    return next(p for p in ds.ems.polygons if p is not None)


def _centre(ds):
    return _first_polygon(ds).representative_point()


def _depth_name(ds):
    return str(ds.ems.depth_coordinate.name)


def _flip_positive(ds, truth):
    # (the name comes from the builder, not from the convention: an edit must not touch the object's caches)
    name = [n for n in truth.depth_names if n in ds.variables][0]
    ds[name].attrs['positive'] = 'down' if str(ds[name].attrs.get('positive', 'up')).lower() == 'up' else 'up'


def _replace_temp(ds, truth):
    ds['temp'] = ds['temp'] + 100


def _add_variable(ds, truth):
    ds['speed'] = ds['eta'] * 2


def _write_values(ds, truth):
    ds['botz'].values[...] = ds['botz'].values + 1


def _collection(ds, **kwargs):
    artist = ds.ems.make_poly_collection(**kwargs)
    array = artist.get_array()
    paths = [np.asarray(p.vertices) for p in artist.get_paths()]
    transform = getattr(artist, '_transform', None)
    return {'array': None if array is None else np.ma.filled(np.ma.asarray(array, dtype='float64'), np.nan),
            'clim': list(artist.get_clim()), 'paths': paths, 'cmap': getattr(artist.get_cmap(), 'name', None),
            'transform': type(transform).__name__ + repr(getattr(transform, 'proj4_params', '')),
            'edgecolor': np.asarray(artist.get_edgecolor())}


def _clip_mask(ds, which, buffer):
    polys = [p for p in ds.ems.polygons if p is not None]
    if which == 'first':
        geometry = polys[0].representative_point()
    elif which == 'last':
        geometry = polys[-1].representative_point()
    else:
        import shapely
        geometry = shapely.box(*shapely.union_all(polys).bounds)
    return ds.ems.make_clip_mask(geometry, buffer=buffer)


def _triangulate(ds):
    from emsarray.operations.triangulate import triangulate_dataset
    vertices, triangles, cells = triangulate_dataset(ds)
    return [np.asarray(vertices), np.asarray(triangles), np.asarray(cells)]


def _transect(ds):
    import shapely
    from emsarray.transect import Transect
    polys = [p for p in ds.ems.polygons if p is not None]
    a, b = polys[0].representative_point(), polys[-1].representative_point()
    transect = Transect(ds, shapely.LineString([(a.x, a.y), (b.x, b.y)]), depth=_depth_name(ds))
    return [[int(s.linear_index), float(s.start_distance), float(s.end_distance)] for s in transect.segments]


def _extract(ds):
    import pandas
    from emsarray.operations import point_extraction
    polys = [p for p in ds.ems.polygons if p is not None]
    points = [polys[-1].representative_point(), polys[0].representative_point()]
    frame = pandas.DataFrame({'lon': [p.x for p in points], 'lat': [p.y for p in points], 'name': ['b', 'a']})
    return point_extraction.extract_dataframe(ds, frame, ('lon', 'lat'))


def _ravel_named_on_last_kind(ds):
    """An array with the name of a dataset variable that lives on another grid (e.g. face values sampled onto nodes)."""
    convention = ds.ems
    # (chosen by name: the iteration order of the set of grid kinds differs between processes and between a freshly
    # built and an unpickled convention, and must not decide which grid the probe array lives on)
    kind = sorted(convention.grid_kinds, key=lambda k: str(getattr(k, 'value', k)))[-1]
    dims = convention.grid_dimensions[kind]
    shape = tuple(convention.grid_shape[kind])
    values = np.arange(int(np.prod(shape)), dtype='float64').reshape(shape) + 0.5
    return convention.ravel(xr.DataArray(values, dims=dims, name='temp'))


#: label -> (kind, properties whose checks observe it, function)
OPS = {
    # queries
    'polygons': ('query', {'C06', 'C02'}, lambda ds: [None if p is None else p for p in ds.ems.polygons]),
    'geometry': ('query', {'C06'}, lambda ds: [ds.ems.geometry, list(ds.ems.bounds)]),
    'face_centres': ('query', {'C02'}, lambda ds: np.asarray(ds.ems.face_centres)),
    'index-conversions': ('query', {'C01'}, lambda ds: [
        [repr(ds.ems.wind_index(n)), ds.ems.ravel_index(ds.ems.wind_index(n))] for n in range(ds.ems.grid_size[ds.ems.default_grid_kind])]
        + [sorted((str(k), int(v)) for k, v in ds.ems.grid_size.items())]),
    'ravel': ('query', {'C03', 'C02'}, lambda ds: [ds.ems.ravel(ds['temp']), ds.ems.wind(ds.ems.ravel(ds['botz']))]),
    'ravel-same-name-other-grid': ('query', {'C03'}, lambda ds: _ravel_named_on_last_kind(ds)),
    'lookup': ('query', {'C04'}, lambda ds: [repr(ds.ems.get_index_for_point(_centre(ds))), repr(ds.ems.get_index_for_point(
        __import__('shapely').Point(_first_polygon(ds).exterior.coords[0])))]),
    'select-index': ('query', {'C05'}, lambda ds: ds.ems.select_index(ds.ems.wind_index(ds.ems.grid_size[ds.ems.default_grid_kind] - 1))),
    'select-point': ('query', {'C05'}, lambda ds: ds.ems.select_point(_centre(ds))),
    'extract': ('query', {'C05'}, _extract),
    'clip-mask-first-0': ('query', {'C07'}, lambda ds: _clip_mask(ds, 'first', 0)),
    'clip-mask-first-1': ('query', {'C07'}, lambda ds: _clip_mask(ds, 'first', 1)),
    'clip-mask-last-1': ('query', {'C07'}, lambda ds: _clip_mask(ds, 'last', 1)),
    'clip-mask-all-0': ('query', {'C07'}, lambda ds: _clip_mask(ds, 'all', 0)),
    'ocean-floor': ('query', {'C12'}, lambda ds: ds.ems.ocean_floor()),
    'normalize-down-shallow': ('query', {'C13'}, lambda ds: ds.ems.normalize_depth_variables(positive_down=True, deep_to_shallow=False)),
    'normalize-up-deep': ('query', {'C13'}, lambda ds: ds.ems.normalize_depth_variables(positive_down=False, deep_to_shallow=True)),
    'depth-coordinates': ('query', {'C13', 'C12'}, lambda ds: [[str(c.name), dict(c.attrs), np.asarray(c.values)] for c in ds.ems.depth_coordinates]),
    'time-coordinate': ('query', {'C17'}, lambda ds: str(ds.ems.time_coordinate.name)),
    'triangulate': ('query', {'C14'}, _triangulate),
    'collection-plain': ('query', {'C19'}, lambda ds: _collection(ds)),
    'collection-botz': ('query', {'C19'}, lambda ds: _collection(ds, data_array=ds['botz'])),
    'collection-styled': ('query', {'C19'}, lambda ds: _collection(ds, data_array=ds['eta'].isel({ds['eta'].dims[0]: 0}), cmap='plasma',
                                                                  clim=(0, 1), edgecolor='red')),
    'transect': ('query', {'C18'}, _transect),
    'topology': ('query', {'C10'}, lambda ds: [getattr(ds.ems.topology, name) for name in (
        'face_node_array', 'edge_node_array', 'face_edge_array', 'edge_face_array', 'face_face_array')]
        if hasattr(ds.ems.topology, 'face_node_array') else None),
    # what users do to their own dataset
    'replace-temp': ('mutate', set(), _replace_temp),
    'add-variable': ('mutate', set(), _add_variable),
    'write-botz-values': ('mutate', set(), _write_values),
    'flip-positive': ('mutate', set(), _flip_positive),
    # operations whose result the program carries on with
    'copy': ('transform', set(), lambda ds: ds.copy()),
    'deepcopy': ('transform', set(), lambda ds: ds.copy(deep=True)),
    'pickle': ('transform', set(), lambda ds: pickle.loads(pickle.dumps(ds))),
    'first-time': ('transform', set(), lambda ds: ds.isel({str(ds.ems.time_coordinate.dims[0]): 0})),
    'select-variables': ('transform', set(), lambda ds: ds.ems.select_variables(['temp', 'botz', 'eta'])),
    'normalized': ('transform', set(), lambda ds: ds.ems.normalize_depth_variables(positive_down=False, deep_to_shallow=True)),
    'floor': ('transform', set(), lambda ds: ds.ems.ocean_floor()),
}

BASES = [
    {'family': 'cf1d', 'ny': 2, 'nx': 3, 'bounds': 'var'},
    {'family': 'cf2d', 'ny': 3, 'nx': 3, 'geometry': 'skew', 'bounds': 'derived', 'holes': 'interior'},
    {'family': 'shoc_simple', 'ny': 2, 'nx': 2, 'geometry': 'rect', 'bounds': 'stored'},
    {'family': 'shoc_standard', 'nj': 2, 'ni': 3, 'dry': 'corner'},
    {'family': 'ugrid', 'mesh': 'M6', 'supplied': ['face_face'], 'start_index': 1},
    {'family': 'ugrid', 'mesh': 'M1', 'start_index': 1, 'supplied': ['edge_node']},
    # a convention constructed by hand for coordinates that autodetection would not have chosen
    {'family': 'cf1d', 'ny': 2, 'nx': 3, 'bounds': 'var', 'decoy': True, 'explicit_names': True},
    {'family': 'cf2d', 'ny': 2, 'nx': 2, 'geometry': 'skew', 'bounds': 'stored', 'decoy': True, 'explicit_names': True},
]


def queries_of(prop: str) -> list[str]:
    return [label for label, (kind, props, _) in OPS.items() if kind == 'query' and prop in props]


# properties whose thorough tier also explores length 4: `first m1 m2 query` with at least one of m1, m2 an
# in-place edit (touch, edit, touch again, ask / touch, transform, edit, ask); the ones with a single own query
DEEP = ('C01', 'C17', 'C18')


def cases_for(prop: str, tier: str) -> list[dict]:
    """One case per (dataset, first operation); the case explores every continuation."""
    own = queries_of(prop)
    if not own:
        return []
    out = []
    for spec in BASES:
        if prop == 'C10' and spec['family'] != 'ugrid':
            continue
        for first in OPS:
            if spec.get('explicit_names') and OPS[first][0] == 'transform' and first != 'pickle':
                continue    # datasets derived from a hand-bound one are detected afresh: another dataset altogether
            out.append({'part': 'sequence', 'spec': spec, 'first': first,
                        'depth': 'edits' if tier == 'quick' else (4 if prop in DEEP else 3)})
    return out


# -------------------------------------------------------------------------------------- engine


def _observe(fn, ds):
    """('ok', canonical observation) or ('raised', exception class name)."""
    import warnings
    with warnings.catch_warnings():
        warnings.simplefilter('ignore')
        try:
            return 'ok', canon(lib(fn, ds))
        except LibraryRaised as err:
            return 'raised', type(err.exc).__name__ + ': ' + str(err.exc)[:160]


def _clean_state(spec, prefix):
    """A dataset that has been through the mutations and transforms of `prefix`, never queried."""
    ds, truth = builders.build(spec)
    for label in prefix:
        kind, _, fn = OPS[label]
        if kind == 'mutate':
            fn(ds, truth)
        elif kind == 'transform':
            # a convention bound by hand stays with its dataset object: no copy then (the only transform
            # explored for such datasets is the pickle round trip, which does not touch its input)
            if spec.get('explicit_names'):
                ds = fn(ds)
            else:
                # ... and the result is copied as well, so that nothing a transform may have attached to its result
                # (a convention object, caches) is part of the clean state: it is detected afresh
                ds = fn(ds.copy(deep=True)).copy(deep=True)
    return ds


def run_case(prop: str, case: dict, rec) -> None:
    spec = case['spec']
    own = queries_of(prop)
    fp = f"{prop}/sequence/{spec['family']}"
    # quick: nothing or one of the in-place edits in the middle (touch, edit, ask); thorough: any operation
    middles = [()] + [(m,) for m in OPS
                      if (case['depth'] != 'edits' or OPS[m][0] == 'mutate')
                      and not (spec.get('explicit_names') and OPS[m][0] == 'transform' and m != 'pickle')]
    if case['depth'] == 4:
        singles = [m for (m,) in middles[1:]]
        middles = middles + [(a, b) for a in singles for b in singles if 'mutate' in (OPS[a][0], OPS[b][0])]
    for middle in middles:
        prefix = (case['first'],) + middle
        # apply the prefix to the one used object
        used, truth = builders.build(spec)
        usable = True
        done = []
        for label in prefix:
            kind, _, fn = OPS[label]
            try:
                if kind == 'transform':
                    used = fn(used)
                elif kind == 'mutate':
                    fn(used, truth)
                else:
                    fn(used)
            except Exception:  # noqa: BLE001
                # the operation is refused here; whether that is right is for the first-call parts
                # (a clean run refuses it as well, or the query comparison below shows a difference)
                if kind == 'transform':
                    usable = False
                    break
            done.append(label)
        if not usable:
            rec.step()
            continue
        for query in own:
            _, _, fn = OPS[query]
            try:
                clean = _clean_state(spec, prefix)
            except Exception:  # noqa: BLE001
                rec.step()
                continue
            want = _observe(fn, clean)
            got = _observe(fn, used)
            rec.nontrivial((prefix, query))
            label = f"{' -> '.join(prefix)} -> {query}"
            if want[0] == 'raised' and got[0] == 'raised':
                rec.step()
                continue
            if want[0] != got[0]:
                rec.check(False, f"{fp}/refusal-depends-on-history/{query}", f"{label}: {'refused' if got[0] == 'raised' else 'accepted'} "
                          "on a used object, the other way on a clean one", want[1] if want[0] == 'raised' else 'a result',
                          got[1] if got[0] == 'raised' else 'a result')
                continue
            difference = first_difference(want[1], got[1])
            rec.check(difference is None, f"{fp}/answer-depends-on-history/{query}",
                      f"{label}: the answer differs from the same call on a dataset that was never used", 'same as clean run', difference)
    rec.outcome(['sequence', spec['family'], case['first']])
