#!/bin/bash
# usage: tools/run_all.sh [tier] [seed]   -- runs every check once, prints one line each
tier=${1:-quick}
seed=${2:-0}
cd "$(dirname "$0")/.."
for id in C01 C02 C03 C04 C05 C06 C07 C08 C09 C10 C11 C12 C13 C14 C15 C16 C17 C18 C19 C20; do
  start=$(date +%s.%N)
  out=$(VERIF_SEED=$seed /venv/bin/python -m mc.run $id --tier $tier 2>&1)
  code=$?
  end=$(date +%s.%N)
  printf "%s exit=%s %5.1fs  %s\n" $id $code $(echo "$end - $start" | bc) "$(echo "$out" | grep -E "^$id $tier" | tail -1)"
  if [ $code -ne 0 ]; then echo "$out" | grep -E "VIOLATION|HARNESS" | head -5; fi
done
