"""
Evaluate one seeded change:  /venv/bin/python tools/seed_eval.py <worktree> <a|b> [--checks C01,C02]
 1. unchanged source: demo must exit 0
 2. patch applied: baseline must stay 371/371, demo must exit non-zero
 3. every quick check is run against the patched worktree (VERIF_REPO=<worktree>), evidence diverted
 4. source restored
Prints a JSON summary on the last line.
"""
import json
import os
import subprocess
import sys
import tempfile

wt, which = sys.argv[1], sys.argv[2]
checks = [f'C{i:02d}' for i in range(1, 21)]
tier = 'quick'
for arg in sys.argv[3:]:
    if arg.startswith('--checks='):
        checks = arg.split('=', 1)[1].split(',')
    if arg.startswith('--tier='):
        tier = arg.split('=', 1)[1]
seed_dir = os.path.join(wt, '_seed', which)
patch = os.path.join(seed_dir, 'patch.diff')
demo = os.path.join(seed_dir, 'demo.py')
env = dict(os.environ, PYTHONPATH=os.path.join(wt, 'src'), DASK_SCHEDULER='synchronous')


def sh(*cmd, **kw):
    return subprocess.run(cmd, capture_output=True, text=True, **kw)


summary = {'worktree': wt, 'which': which}
sh('git', '-C', wt, 'checkout', '--', 'src')
r = sh('/venv/bin/python', demo, cwd=wt, env=env)
summary['demo_unchanged_exit'] = r.returncode
r = sh('git', '-C', wt, 'apply', patch)
summary['patch_applies'] = r.returncode == 0
if r.returncode != 0:
    print(r.stderr)
    print(json.dumps(summary))
    sys.exit(1)
try:
    r = sh('/venv/bin/python', demo, cwd=wt, env=env)
    summary['demo_changed_exit'] = r.returncode
    summary['demo_changed_output'] = (r.stdout + r.stderr)[-400:]
    r = sh('/venv/bin/python', os.path.join(os.path.dirname(__file__), 'baseline.py'), wt)
    summary['baseline'] = r.stdout.strip().splitlines()[0] if r.stdout.strip() else r.stderr[-200:]
    summary['baseline_ok'] = r.returncode == 0
    out_dir = tempfile.mkdtemp(prefix='seed-eval-')
    caught = {}
    for check in checks:
        env_check = dict(os.environ, VERIF_REPO=wt, VERIF_OUT=out_dir)
        r = sh('/venv/bin/python', '-m', 'mc.run', check, '--tier', tier, cwd=os.path.dirname(os.path.dirname(os.path.abspath(__file__))), env=env_check)
        if r.returncode != 0:
            fps = [line.strip() for line in r.stdout.splitlines() if 'distinct fingerprint' in line or line.startswith('HARNESS')]
            caught[check] = {'exit': r.returncode, 'detail': fps[:2]}
    summary['caught_by'] = caught
    subprocess.run(['rm', '-rf', out_dir])
finally:
    sh('git', '-C', wt, 'checkout', '--', 'src')
print(json.dumps(summary, indent=1))
