"""Keep an evaluated seeded change:  keep_seed.py <worktree> <a|b> <seed id> <property> <eval.json> "<needs>" """
import json
import os
import shutil
import sys

wt, which, seed_id, prop, eval_json, needs = sys.argv[1:7]
src = os.path.join(wt, '_seed', which)
dst = os.path.join(os.path.dirname(os.path.dirname(os.path.abspath(__file__))), 'seeded', seed_id)
os.makedirs(dst, exist_ok=True)
for name in ('patch.diff', 'demo.py', 'notes.md'):
    if os.path.exists(os.path.join(src, name)):
        shutil.copy(os.path.join(src, name), os.path.join(dst, name))
summary = json.load(open(eval_json))
meta = {
    'id': seed_id,
    'breaks_property': prop,
    'needs_to_manifest': needs,
    'origin': 'independent sub-agent given only the property text and a scratch worktree',
    'base_commit': os.popen(f'git -C {wt} rev-parse --short HEAD').read().strip(),
    'confirmed': {
        'patch_applies': summary.get('patch_applies'),
        'baseline_371_pass_with_change': summary.get('baseline_ok'),
        'demo_exit_unchanged': summary.get('demo_unchanged_exit'),
        'demo_exit_changed': summary.get('demo_changed_exit'),
    },
    'what_was_run': 'tools/seed_eval.py: demo on unchanged and changed source, tools/baseline.py on the changed worktree, '
                    'then every quick check with VERIF_REPO=<worktree> (evidence diverted with VERIF_OUT)',
    'caught_by': summary.get('caught_by'),
}
json.dump(meta, open(os.path.join(dst, 'meta.json'), 'w'), indent=1)
print(json.dumps(meta, indent=1))
