"""Run the repository's pinned test-suite and compare with /root/.vp/BASELINE.json (stable_pass).
usage: /venv/bin/python tools/baseline.py [repo_dir]   -> exit 0 iff every stable test still passes"""
import json
import os
import subprocess
import sys
import tempfile
import xml.etree.ElementTree as ET

repo = sys.argv[1] if len(sys.argv) > 1 else '/repo'
baseline = json.load(open('/root/.vp/BASELINE.json'))
stable = set(baseline['stable_pass'])
with tempfile.TemporaryDirectory() as tmp:
    xml = os.path.join(tmp, 'junit.xml')
    env = dict(os.environ)
    env.pop('EMSARRAY_VERIF', None)
    env['PYTHONPATH'] = os.path.join(repo, 'src')
    subprocess.run(['/venv/bin/python', '-m', 'pytest', '-ra', '-q', '-p', 'no:cacheprovider', '--timeout=900',
                    '--continue-on-collection-errors', f'--junitxml={xml}'], cwd=repo, env=env,
                   stdout=subprocess.DEVNULL, stderr=subprocess.DEVNULL)
    passed = set()
    for case in ET.parse(xml).getroot().iter('testcase'):
        name = f"{case.get('classname')}::{case.get('name')}"
        if not any(child.tag in ('failure', 'error', 'skipped') for child in case):
            passed.add(name)
missing = sorted(stable - passed)
print(f"baseline: {len(stable & passed)}/{len(stable)} stable tests pass; {len(passed)} passed in total")
for name in missing[:20]:
    print("  NOT PASSING:", name)
sys.exit(1 if missing else 0)
